// c05: correspondence harness for C05 (dashing).
// K1 cases: dash arrays x offsets x lengths; records dashCanonical, dashStart (export hooks), the decision
//   Context.DrawPath takes (through a recording Renderer: the real checkDash call site), and whether that
//   decision draws what Path.Dash draws.
// K2 cases: Path.Dash on polylines with rational segment lengths (axis-aligned / Pythagorean steps, open and
//   closed, multi-subpath); every output point gets a certificate (segment index, parameter) computed with
//   big.Rat which the Coq judge re-checks before it compares cut positions with the specification.
package main

import (
	"math"
	"flag"
	"fmt"
	"image"
	"math/big"

	"github.com/tdewolff/canvas"

	"verifharness/internal/cq"
	"verifharness/internal/gen"
	"verifharness/internal/out"
	"verifharness/internal/pd"
	"verifharness/internal/rng"
)

func safe(f func()) (msg string) {
	defer func() {
		if r := recover(); r != nil {
			msg = fmt.Sprint(r)
		}
	}()
	f()
	return ""
}

func cp(d []float64) []float64 { return append([]float64{}, d...) }

func eqf(a, b []float64) bool {
	if len(a) != len(b) {
		return false
	}
	for i := range a {
		if a[i] != b[i] {
			return false
		}
	}
	return true
}

// ---- generators -------------------------------------------------------------------------------

var alphabet = []float64{0, 0.25, 0.5, 1, 1, 2, 3, 0.75, 1.5}

// pattern draws a dash array: length 0..7, zeros, repeats of a sub-pattern, rarely a negative entry.
func pattern(r *rng.R, valid bool) ([]float64, string) {
	fam := "rand"
	var d []float64
	switch k := r.Intn(10); {
	case k == 0 && !valid:
		return nil, "empty"
	case k <= 2: // repeated sub-pattern
		fam = "repeat"
		n := 1 + r.Intn(3)
		var s []float64
		for i := 0; i < n; i++ {
			s = append(s, alphabet[1+r.Intn(len(alphabet)-1)])
		}
		rep := 2
		if n <= 1 && r.Bool() {
			rep = 4
		}
		for j := 0; j < rep && len(d)+n <= 7; j++ {
			d = append(d, s...)
		}
	case k <= 4 && !valid: // zeros in prominent places
		fam = "zeros"
		n := 1 + r.Intn(7)
		for i := 0; i < n; i++ {
			if r.P(2, 5) {
				d = append(d, 0)
			} else {
				d = append(d, alphabet[r.Intn(len(alphabet))])
			}
		}
		if r.Bool() {
			d[0] = 0
		}
		if r.Bool() {
			d[len(d)-1] = 0
		}
	default:
		n := 1 + r.Intn(7)
		if valid {
			n = 1 + r.Intn(4)
		}
		for i := 0; i < n; i++ {
			if valid {
				d = append(d, alphabet[1+r.Intn(len(alphabet)-1)])
			} else {
				d = append(d, alphabet[r.Intn(len(alphabet))])
			}
		}
	}
	if !valid && r.P(1, 25) {
		fam = "negative"
		d[r.Intn(len(d))] = -1
	}
	return d, fam
}

func period(d []float64) float64 {
	s := 0.0
	for _, x := range d {
		s += x
	}
	if len(d)%2 == 1 {
		s *= 2
	}
	return s
}

// offset in [-3P, 3P] on the quarter grid; family says where it lies
func offset(r *rng.R, P float64) (float64, string) {
	if P <= 0 {
		P = 4
	}
	q := int(P * 4)
	switch r.Intn(8) {
	case 0:
		return 0, "off=0"
	case 1:
		return -float64(r.Range(1, 3)) * P, "off=-kP"
	case 2:
		return float64(r.Range(1, 3)) * P, "off=+kP"
	}
	o := float64(r.Range(-3*q, 3*q)) / 4
	switch {
	case o < -P:
		return o, "off<-P"
	case o < 0:
		return o, "-P<=off<0"
	case o < P:
		return o, "0<=off<P"
	}
	return o, "off>=P"
}

// ---- recording renderer -----------------------------------------------------------------------

type decision struct {
	ok     bool
	off    float64
	dashes []float64
}

// recR implements canvas.Renderer and records the style DrawPath hands to the renderer
type recR struct{ ds []decision }

func (r *recR) Size() (float64, float64) { return 100, 100 }
func (r *recR) RenderPath(p *canvas.Path, style canvas.Style, m canvas.Matrix) {
	r.ds = append(r.ds, decision{style.HasStroke(), style.DashOffset, cp(style.Dashes)})
}
func (r *recR) RenderText(*canvas.Text, canvas.Matrix)     {}
func (r *recR) RenderImage(image.Image, canvas.Matrix)     {}

// ---- K1 ---------------------------------------------------------------------------------------

func k1(r *rng.R, i int, o *out.W) {
	d, fam := pattern(r, false)
	off, ofam := offset(r, period(d))
	L := float64(r.Range(1, 160)) / 4
	if r.P(1, 4) { // lengths around one dash element
		L = float64(r.Range(1, 12)) / 4
	}
	p := &canvas.Path{}
	p.MoveTo(0, 0)
	p.LineTo(L, 0)

	var coff, pos0, doff float64
	var cd, dd []float64
	var i0 int
	hasStart, ok, drawEq, secondEq, mut := false, false, true, true, false
	msg := safe(func() {
		coff, cd = canvas.VerifDashCanonical(off, cp(d))
		cd = cp(cd)
		pos := len(cd) > 0
		for _, x := range cd {
			if !(x > 0) {
				pos = false
			}
		}
		if pos {
			hasStart = true
			dbl := cp(cd)
			if len(dbl)%2 == 1 {
				dbl = append(dbl, cd...)
			}
			i0, pos0 = canvas.VerifDashStart(coff, dbl)
		}
		// what Context.DrawPath decides (two paths in one call)
		rr := &recR{}
		ctx := canvas.NewContext(rr)
		ctx.SetFillColor(canvas.Transparent)
		ctx.SetStrokeColor(canvas.Black)
		ctx.SetStrokeWidth(1)
		user := cp(d)
		ctx.SetDashes(off, user...)
		ctx.DrawPath(0, 0, p, p.Copy())
		if len(rr.ds) != 2 {
			panic(fmt.Sprintf("DrawPath made %d RenderPath calls", len(rr.ds)))
		}
		d1, d2 := rr.ds[0], rr.ds[1]
		ok, doff, dd = d1.ok, d1.off, d1.dashes
		secondEq = d1.ok == d2.ok && (!d1.ok || (eqf(d1.dashes, d2.dashes) && (len(d1.dashes) == 0 || d1.off == d2.off)))
		if !eqf(user, d) {
			mut = true
		}
		user2 := cp(d)
		A := p.Dash(off, user2...)
		if !eqf(user2, d) {
			mut = true
		}
		var B *canvas.Path
		switch {
		case !ok:
			B = &canvas.Path{}
		case len(dd) == 0:
			B = p
		default:
			B = p.Dash(doff, cp(dd)...)
		}
		drawEq = eqf(A.Data(), B.Data())
	})
	term := fmt.Sprintf("K1 (1#8) (mkK1 %s %s %s %s %s %s %s %s %s %s %s %s %s %s %s %s)",
		cq.F(canvas.Epsilon), cq.F(off), cq.Floats(d), cq.F(L),
		cq.F(coff), cq.Floats(cd), cq.Bool(hasStart), cq.Z(int64(i0)), cq.F(pos0),
		cq.Bool(ok), cq.F(doff), cq.Floats(dd), cq.Bool(drawEq), cq.Bool(secondEq), cq.Bool(mut), cq.Bool(msg != ""))
	desc := map[string]interface{}{"kind": "K1", "offset": off, "dashes": d, "length": L, "path": p.String(),
		"go": fmt.Sprintf("dashCanonical=(%v,%v) dashStart=(%v,%v,has=%v) DrawPath=(stroke=%v,DashOffset=%v,Dashes=%v) drawEqualsDash=%v second=%v mutated=%v panic=%q Dash=%s",
			coff, cd, i0, pos0, hasStart, ok, doff, dd, drawEq, secondEq, mut, msg, dashStr(p, off, d))}
	o.Emit(out.Case{I: i, Fam: "k1:" + fam + ":" + ofam, Coq: term, Desc: desc})
}

func dashStr(p *canvas.Path, off float64, d []float64) (s string) {
	if m := safe(func() { s = p.Dash(off, cp(d)...).String() }); m != "" {
		return "panic: " + m
	}
	return s
}


// ---- K2 ---------------------------------------------------------------------------------------

type step struct{ dx, dy, l int } // quarter units

var triples = [][3]int{{3, 4, 5}, {4, 3, 5}, {5, 12, 13}, {12, 5, 13}, {8, 15, 17}, {1, 0, 1}, {0, 1, 1}, {2, 0, 2}, {0, 3, 3}}

type isub struct {
	closed bool
	vs     [][2]int // quarter units; for closed: the start vertex repeated at the end
	ls     []int
	fam    string
}

func genSub(r *rng.R, ox, oy int) isub {
	switch r.Intn(6) {
	case 0: // closed rectangle, random start corner and orientation
		w, h := r.Range(1, 30), r.Range(1, 30)
		c := [][2]int{{0, 0}, {w, 0}, {w, h}, {0, h}}
		if r.Bool() {
			c = [][2]int{{0, 0}, {0, h}, {w, h}, {w, 0}}
		}
		k := r.Intn(4)
		var vs [][2]int
		for j := 0; j <= 4; j++ {
			v := c[(k+j)%4]
			vs = append(vs, [2]int{ox + v[0], oy + v[1]})
		}
		return mk(vs, true, "rect")
	case 1: // closed right triangle with a Pythagorean hypotenuse
		t := triples[r.Intn(5)]
		u := r.Range(1, 4)
		c := [][2]int{{0, 0}, {t[0] * u, 0}, {0, t[1] * u}}
		k := r.Intn(3)
		var vs [][2]int
		for j := 0; j <= 3; j++ {
			v := c[(k+j)%3]
			vs = append(vs, [2]int{ox + v[0], oy + v[1]})
		}
		return mk(vs, true, "tri")
	case 2: // axis-aligned staircase, open
		n := r.Range(1, 5)
		x, y := ox, oy
		vs := [][2]int{{x, y}}
		for j := 0; j < n; j++ {
			if j%2 == 0 {
				x += r.Range(1, 24)
			} else {
				y += r.Range(1, 24) * (1 - 2*r.Intn(2))
			}
			vs = append(vs, [2]int{x, y})
		}
		return mk(vs, false, "stairs")
	case 3: // single segment
		t := triples[r.Intn(len(triples))]
		u := r.Range(1, 12)
		return mk([][2]int{{ox, oy}, {ox + t[0]*u, oy + t[1]*u}}, false, "segment")
	default: // x-monotone polyline with Pythagorean steps, open
		n := r.Range(2, 5)
		x, y := ox, oy
		vs := [][2]int{{x, y}}
		for j := 0; j < n; j++ {
			t := triples[r.Intn(5)]
			u := r.Range(1, 3)
			x += t[0] * u
			y += t[1] * u * (1 - 2*r.Intn(2))
			vs = append(vs, [2]int{x, y})
		}
		return mk(vs, false, "pyth")
	}
}

func mk(vs [][2]int, closed bool, fam string) isub {
	s := isub{closed: closed, vs: vs, fam: fam}
	for j := 0; j+1 < len(vs); j++ {
		dx, dy := vs[j+1][0]-vs[j][0], vs[j+1][1]-vs[j][1]
		l2 := dx*dx + dy*dy
		l := 0
		for l*l < l2 {
			l++
		}
		if l*l != l2 {
			panic("generator: irrational length")
		}
		s.ls = append(s.ls, l)
	}
	return s
}

func rat(f float64) *big.Rat { return new(big.Rat).SetFloat64(f) }
func ratq(i int) *big.Rat    { return big.NewRat(int64(i), 4) }

func ratS(x *big.Rat) string {
	n := x.Num().String()
	if x.Sign() < 0 {
		n = "(" + n + ")"
	}
	return "(" + n + " # " + x.Denom().String() + ")"
}

var slack = big.NewRat(1, 1<<30)

// locate finds the first segment at or after (k,t) (cyclically for closed subpaths) on which point (x,y) lies
func locate(s isub, k int, t *big.Rat, x, y float64) (int, *big.Rat, bool) {
	n := len(s.ls)
	qx, qy := rat(x), rat(y)
	lim := n + 1 // closed: go once around, back onto segment k before parameter t
	if !s.closed {
		lim = n - k
	}
	for j := 0; j < lim; j++ {
		kk := (k + j) % n
		ax, ay := ratq(s.vs[kk][0]), ratq(s.vs[kk][1])
		bx, by := ratq(s.vs[kk+1][0]), ratq(s.vs[kk+1][1])
		dx, dy := new(big.Rat).Sub(bx, ax), new(big.Rat).Sub(by, ay)
		l2 := new(big.Rat).Add(new(big.Rat).Mul(dx, dx), new(big.Rat).Mul(dy, dy))
		px, py := new(big.Rat).Sub(qx, ax), new(big.Rat).Sub(qy, ay)
		tt := new(big.Rat).Add(new(big.Rat).Mul(px, dx), new(big.Rat).Mul(py, dy))
		tt.Quo(tt, l2)
		if tt.Sign() < 0 {
			tt.SetInt64(0)
		}
		if tt.Cmp(big.NewRat(1, 1)) > 0 {
			tt.SetInt64(1)
		}
		ex := new(big.Rat).Sub(px, new(big.Rat).Mul(tt, dx))
		ey := new(big.Rat).Sub(py, new(big.Rat).Mul(tt, dy))
		if ex.Abs(ex).Cmp(slack) > 0 || ey.Abs(ey).Cmp(slack) > 0 {
			continue
		}
		if j == 0 && tt.Cmp(t) <= 0 {
			continue
		}
		return kk, tt, true
	}
	return 0, nil, false
}

func k2(r *rng.R, i int, o *out.W) {
	ns := 1
	if r.P(1, 3) {
		ns = r.Range(2, 3)
	}
	var subs []isub
	p := &canvas.Path{}
	fam := ""
	for j := 0; j < ns; j++ {
		s := genSub(r, r.Range(-40, 40)+200*j, r.Range(-40, 40))
		subs = append(subs, s)
		p.MoveTo(float64(s.vs[0][0])/4, float64(s.vs[0][1])/4)
		m := len(s.vs)
		if s.closed {
			m--
		}
		for _, v := range s.vs[1:m] {
			p.LineTo(float64(v[0])/4, float64(v[1])/4)
		}
		if s.closed {
			p.Close()
		}
		if j > 0 {
			fam += "+"
		}
		fam += s.fam
	}
	// the builder merges collinear segments: take the vertices from the path actually built
	if segs, err := pd.Decode(p.Data()); err == nil {
		sps := pd.Subpaths(segs)
		if len(sps) == len(subs) {
			for j, sp := range sps {
				var vs [][2]int
				for _, sg := range sp {
					vs = append(vs, [2]int{int(sg.X * 4), int(sg.Y * 4)})
				}
				subs[j] = mk(vs, subs[j].closed, subs[j].fam)
			}
		}
	}
	d, pfam := pattern(r, r.P(4, 5))
	off, ofam := offset(r, period(d))
	var whole *canvas.Path
	var parts []*canvas.Path
	concat := true
	msg := safe(func() {
		whole = p.Dash(off, cp(d)...)
		sps := p.Split()
		if len(sps) != len(subs) {
			panic("Split returned a different number of subpaths")
		}
		var all []float64
		for _, sp := range sps {
			q := sp.Dash(off, cp(d)...)
			parts = append(parts, q)
			all = append(all, q.Data()...)
		}
		concat = eqf(all, whole.Data())
	})
	var subS []string
	nondeg := false
	if msg == "" {
		for j, s := range subs {
			segs, err := pd.Decode(parts[j].Data())
			if err != nil {
				msg = "malformed output: " + err.Error()
				break
			}
			var pieces []string
			k, t := 0, big.NewRat(-1, 1)
			for _, piece := range pd.Subpaths(segs) {
				var pts []string
				for _, sg := range piece {
					if sg.Cmd != 'M' && sg.Cmd != 'L' && sg.Cmd != 'Z' {
						msg = "non-line command in output"
					}
					kk, tt, ok := locate(s, k, t, sg.X, sg.Y)
					if !ok {
						// not found going forward: give the judge a certificate that fails
						pts = append(pts, fmt.Sprintf("(mkP %s %s (-1)%%Z 0)", cq.F(sg.X), cq.F(sg.Y)))
						continue
					}
					k, t = kk, tt
					pts = append(pts, fmt.Sprintf("(mkP %s %s %s %s)", cq.F(sg.X), cq.F(sg.Y), cq.Z(int64(kk)), ratS(tt)))
				}
				pieces = append(pieces, cq.List(pts))
			}
			if len(pieces) > 1 {
				nondeg = true
			}
			var vs, ls []string
			for _, v := range s.vs {
				vs = append(vs, cq.Pair(cq.Q(int64(v[0]), 4), cq.Q(int64(v[1]), 4)))
			}
			for _, l := range s.ls {
				ls = append(ls, cq.Q(int64(l), 4))
			}
			subS = append(subS, fmt.Sprintf("(mkSub %s %s %s %s)", cq.Bool(s.closed), cq.List(vs), cq.List(ls), cq.List(pieces)))
		}
	}
	term := fmt.Sprintf("K2 (mkK2 %s %s %s (1 # 1073741824) %s %s %s)", cq.F(canvas.Epsilon), cq.F(off), cq.Floats(d),
		cq.Bool(concat), cq.Bool(msg != ""), cq.List(subS))
	ws := ""
	if whole != nil {
		ws = whole.String()
	}
	desc := map[string]interface{}{"kind": "K2", "path": p.String(), "offset": off, "dashes": d, "go": ws, "panic": msg, "nondegenerate": nondeg}
	o.Emit(out.Case{I: i, Fam: "k2:" + fam + ":" + pfam + ":" + ofam, Coq: term, Desc: desc})
}

// k4: Path.Dash on ONE elliptical arc with exact geometry (gen.Arc); the returned dashes are judged in Coq (Corr.C05.judge_k4)
func k4(r *rng.R, i int, o *out.W) {
	sx, sy := float64(r.Range(-40, 40))/4, float64(r.Range(-40, 40))/4
	a := gen.Arc(r, sx, sy, r.Intn(3))
	p := &canvas.Path{}
	p.MoveTo(a.Sx, a.Sy)
	p.ArcTo(a.Rx, a.Ry, a.RotDeg, a.Large, a.Sweep, a.Ex, a.Ey)
	d := p.Data()
	if len(d) != 12 || d[4] != canvas.ArcToCmd {
		return
	}
	g4 := func(lo, hi int) float64 { return float64(r.Range(lo, hi)) / 4 }
	var ds []float64
	for k := 0; k < r.Range(1, 4); k++ {
		ds = append(ds, g4(2, 40))
	}
	period := 0.0
	for _, x := range ds {
		period += x
	}
	if len(ds)%2 == 1 {
		period *= 2
	}
	off := g4(-int(8*period), int(8*period))
	var L float64
	var q *canvas.Path
	msg := ""
	func() {
		defer func() {
			if e := recover(); e != nil {
				msg = fmt.Sprint(e)
			}
		}()
		L = p.Length()
		q = p.Dash(off, append([]float64(nil), ds...)...)
	}()
	fam := "k4:arc"
	if a.Rx == a.Ry {
		fam = "k4:circle"
	} else if a.SnN != 0 && a.CsN != 0 {
		fam = "k4:rotated"
	}
	if a.Large {
		fam += ":large"
	}
	desc := map[string]interface{}{"kind": "K4", "path": p.String(), "offset": off, "dashes": ds, "length": L, "panic": msg, "go": nil}
	pt := func(x, y float64) string { return "(" + cq.F(x) + ", " + cq.F(y) + ")" }
	if msg != "" {
		term := fmt.Sprintf("K4 (mkK4 (mkA %s 1 1 1 0 %s %s false false 0 nil nil true) 0 nil)", pt(0, 0), pt(0, 0), pt(0, 0))
		o.Emit(out.Case{I: i, Fam: fam, Coq: term, Desc: desc})
		return
	}
	desc["go"] = q.String()
	// number of dashes the pattern prescribes on a path of length L (description only; the judge computes its own)
	{
		dd := ds
		if len(dd)%2 == 1 {
			dd = append(append([]float64{}, dd...), dd...)
		}
		per := 0.0
		for _, x := range dd {
			per += x
		}
		nd := 0
		if per > 0 {
			pos := math.Mod(off, per)
			if pos < 0 {
				pos += per
			}
			// walk the pattern from -pos
			x, k := -pos, 0
			for x < L {
				if k%2 == 0 && x+dd[k%len(dd)] > 0 && dd[k%len(dd)] > 0 {
					nd++
				}
				x += dd[k%len(dd)]
				k++
			}
		}
		desc["spec_dashes"] = nd
	}
	var ps []string
	for _, sp := range q.Split() {
		qd := sp.Data()
		if len(qd) != 12 || qd[4] != canvas.ArcToCmd {
			ps = append(ps, fmt.Sprintf("(mkAP false false false %s %s %s)", pt(0, 0), pt(0, 0), cq.F(0)))
			continue
		}
		relEq := func(a, b float64) bool { return math.Abs(a-b) <= math.Abs(b)*0x1p-40 } // ArcTo may rescale radii by 1 + a few ulp
		same := relEq(qd[5], d[5]) && relEq(qd[6], d[6]) && qd[7] == d[7]
		large, sweep := qd[8] == 1 || qd[8] == 3, qd[8] == 2 || qd[8] == 3
		ps = append(ps, fmt.Sprintf("(mkAP %s %s %s %s %s %s)", cq.Bool(same), cq.Bool(large), cq.Bool(sweep), pt(qd[1], qd[2]), pt(qd[9], qd[10]), cq.F(sp.Length())))
	}
	qn := func(n, dn int64) string {
		if n < 0 {
			return fmt.Sprintf("((-%d) # %d)", -n, dn)
		}
		return fmt.Sprintf("(%d # %d)", n, dn)
	}
	arc := fmt.Sprintf("(mkA %s %s %s %s %s %s %s %s %s %s nil %s false)", pt(a.Cx, a.Cy), cq.F(a.Rx), cq.F(a.Ry), qn(a.CsN, a.H), qn(a.SnN, a.H), pt(a.Sx, a.Sy), pt(a.Ex, a.Ey),
		cq.Bool(a.Large), cq.Bool(a.Sweep), cq.F(L), cq.List(ps))
	o.Emit(out.Case{I: i, Fam: fam, Coq: fmt.Sprintf("K4 (mkK4 %s %s %s)", arc, cq.F(off), cq.Floats(ds)), Desc: desc})
}

// k6: a line followed by a rotated elliptical arc; the pattern's last boundary on the subpath falls on the line, so the arc lies
// wholly inside the last dash and must come back as it is stored
func k6(r *rng.R, i int, o *out.W) {
	sx, sy := float64(r.Range(-40, 40))/4, float64(r.Range(-40, 40))/4
	ll := float64(r.Range(16, 80)) / 4
	a := gen.Arc(r, sx+ll, sy, 0)
	p := &canvas.Path{}
	p.MoveTo(sx, sy)
	p.LineTo(sx+ll, sy)
	p.ArcTo(a.Rx, a.Ry, a.RotDeg, a.Large, a.Sweep, a.Ex, a.Ey)
	d := p.Data()
	if len(d) != 16 || d[8] != canvas.ArcToCmd {
		return
	}
	// dash, gap, then a dash that outlasts the subpath: the last boundary (3/4 or 1/2 of the line) is on the line
	ds := []float64{ll / 2, ll / 4, 65536, 1}
	if r.Bool() {
		ds = []float64{ll / 4, ll / 4, 65536, 1}
	}
	off := 0.0
	var q *canvas.Path
	msg := safe(func() { q = p.Dash(off, append([]float64(nil), ds...)...) })
	cells := func(x0, y0 float64, rec []float64) string { // start point, rx, ry, rot, flags, end point
		return cq.Floats([]float64{x0, y0, rec[1], rec[2], rec[3], rec[4], rec[5], rec[6]})
	}
	var acts []string
	desc := map[string]interface{}{"kind": "K6", "path": p.String(), "offset": off, "dashes": ds, "panic": msg, "go": nil, "length": 0.0}
	if msg == "" {
		desc["go"] = q.String()
		if _, err := pd.Decode(q.Data()); err != nil {
			msg = "malformed output"
		}
		qd := q.Data()
		for k := 0; k < len(qd); {
			n := 4
			switch qd[k] {
			case canvas.QuadToCmd:
				n = 6
			case canvas.CubeToCmd, canvas.ArcToCmd:
				n = 8
			}
			if qd[k] == canvas.ArcToCmd && k >= 3 {
				acts = append(acts, cells(qd[k-3], qd[k-2], qd[k:k+8]))
			}
			k += n
		}
	}
	term := fmt.Sprintf("K6 (mkK6 %s %s %s)", cells(sx+ll, sy, d[8:16]), cq.List(acts), cq.Bool(msg != ""))
	fam := "k6:line+arc"
	if a.SnN != 0 && a.CsN != 0 && a.Rx != a.Ry {
		fam = "k6:line+rotated-arc"
	}
	o.Emit(out.Case{I: i, Fam: fam, Coq: term, Desc: desc})
}

func main() {
	seed := flag.Uint64("seed", 1, "")
	n := flag.Int("n", 100, "")
	only := flag.Int("only", -1, "")
	k2n := flag.Int("k2every", 4, "every k-th case is a K2 (Path.Dash) case")
	flag.Parse()
	o := out.New()
	defer o.Close()
	root := rng.New(*seed)
	for i := 0; i < *n; i++ {
		if *only >= 0 && i != *only {
			continue
		}
		r := root.Fork(uint64(i))
		if i%32 == 21 {
			k6(r, i, o)
		} else if i%16 == 13 {
			k4(r, i, o)
		} else if i%16 == 5 {
			k3(r, i, o)
		} else if i%16 == 9 || i%16 == 1 {
			k5(r, i, o)
		} else if *k2n > 0 && i%*k2n == *k2n-1 {
			k2(r, i, o)
		} else {
			k1(r, i, o)
		}
	}
}

// Package rng is the single PRNG (splitmix64) from which every random choice of the harness is derived,
// so that a (seed, case index) pair replays exactly.
package rng

type R struct{ s uint64 }

func New(seed uint64) *R { return &R{s: seed*0x9E3779B97F4A7C15 + 0x1234567} }

// Fork derives an independent stream for case i.
func (r *R) Fork(i uint64) *R { return &R{s: r.s ^ (i+1)*0xBF58476D1CE4E5B9} }

func (r *R) U64() uint64 {
	r.s += 0x9E3779B97F4A7C15
	z := r.s
	z = (z ^ (z >> 30)) * 0xBF58476D1CE4E5B9
	z = (z ^ (z >> 27)) * 0x94D049BB133111EB
	return z ^ (z >> 31)
}

// Intn returns a value in [0,n).
func (r *R) Intn(n int) int {
	if n <= 0 {
		return 0
	}
	return int(r.U64() % uint64(n))
}

// Range returns a value in [lo,hi].
func (r *R) Range(lo, hi int) int { return lo + r.Intn(hi-lo+1) }

func (r *R) Bool() bool { return r.U64()&1 == 1 }

// P returns true with probability num/den.
func (r *R) P(num, den int) bool { return r.Intn(den) < num }

func Pick[T any](r *R, xs []T) T { return xs[r.Intn(len(xs))] }

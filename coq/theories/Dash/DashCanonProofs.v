(** C05 — proofs about dashCanonical's output shape, idempotence, degenerate patterns, the end-to-end
    statement for Dash (selection = [on] of the canonical pattern) and checkDash/DrawPath agreement. *)
From Coq Require Import ZArith QArith Qround List Bool Arith Lia Lqa.
From CV Require Import Dash.DashPhase Dash.DashProofs.
Import ListNotations.
Open Scope Q_scope.

Section Canon.
Variable eps : Q.
Hypothesis Heps : 0 <= eps.

Notation eq0 := (eq0 eps).
Notation equalq := (equalq eps).

Lemma eq0_false_pos x : eq0 x = false -> ~ x < 0 -> eps < x.
Proof.
  unfold DashPhase.eq0, DashPhase.equalq. intros H Hn.
  destruct (Qlt_le_dec x 0); [contradiction|].
  destruct (Qlt_le_dec eps (x - 0)); [lra|discriminate].
Qed.

Lemma pos_eq0_false x : eps < x -> eq0 x = false.
Proof.
  unfold DashPhase.eq0, DashPhase.equalq. intro H.
  destruct (Qlt_le_dec x 0); [exfalso; lra|].
  destruct (Qlt_le_dec eps (x - 0)); [reflexivity|exfalso; lra].
Qed.

Lemma zero_eq0 x : x == 0 -> eq0 x = true.
Proof.
  unfold DashPhase.eq0, DashPhase.equalq. intro H.
  destruct (Qlt_le_dec x 0); [exfalso; lra|].
  destruct (Qlt_le_dec eps (x - 0)); [exfalso; lra|reflexivity].
Qed.

Definition big (l : list Q) : Prop := Forall (fun x => eps < x) l.

Lemma big_allpos l : big l -> allpos l.
Proof. intro H. eapply Forall_impl; [|exact H]. intros a Ha. simpl in Ha. lra. Qed.

(* ---- the REPEAT loop ------------------------------------------------------------------------- *)

Definition stopb (d : list Q) : bool :=
  negb (Nat.even (length d) && negb (length d =? 0)%nat &&
        list_equalq eps (firstn (Nat.div2 (length d)) d) (skipn (Nat.div2 (length d)) d)).

Lemma rm_repeat_stop f d : stopb d = true -> rm_repeat eps f d = d.
Proof.
  unfold stopb. intro H. destruct f; simpl; [reflexivity|].
  destruct (Nat.even (length d) && negb (length d =? 0)%nat); [|reflexivity].
  simpl in H. destruct (list_equalq eps _ _); [discriminate|reflexivity].
Qed.

Lemma rm_repeat_reaches_stop : forall f d, (length d <= f)%nat -> stopb (rm_repeat eps f d) = true.
Proof.
  induction f as [|f IH]; intros d Hl.
  - simpl. destruct d; [reflexivity|simpl in Hl; lia].
  - simpl. destruct (Nat.even (length d) && negb (length d =? 0)%nat) eqn:Ec.
    + destruct (list_equalq eps (firstn (Nat.div2 (length d)) d) (skipn (Nat.div2 (length d)) d)) eqn:El.
      * apply IH. rewrite firstn_length. apply andb_prop in Ec. destruct Ec as [_ Hz].
        apply negb_true_iff, Nat.eqb_neq in Hz.
        pose proof (Nat.lt_div2 (length d) ltac:(lia)). lia.
      * unfold stopb. rewrite Ec, El. reflexivity.
    + unfold stopb. rewrite Ec. reflexivity.
Qed.

Lemma rm_repeat_big : forall f d, big d -> big (rm_repeat eps f d).
Proof.
  induction f as [|f IH]; intros d Hd; simpl; [exact Hd|].
  destruct (Nat.even (length d) && negb (length d =? 0)%nat); [|exact Hd].
  destruct (list_equalq eps _ _); [|exact Hd].
  apply IH. apply Forall_firstn. exact Hd.
Qed.

Lemma rm_repeat_nonempty : forall f d, d <> [] -> rm_repeat eps f d <> [].
Proof.
  induction f as [|f IH]; intros d Hd; simpl; [exact Hd|].
  destruct (Nat.even (length d) && negb (length d =? 0)%nat) eqn:Ec; [|exact Hd].
  destruct (list_equalq eps _ _); [|exact Hd].
  apply IH. destruct d as [|a [|b d]]; simpl in *; try congruence.
Qed.

(* ---- the zero-removal steps are the identity on positive arrays -------------------------------- *)

Lemma rm_mid_zeros_big rest : forall prev, big rest -> rm_mid_zeros eps prev rest = prev :: rest.
Proof.
  induction rest as [|x rest IH]; intros prev Hb; [reflexivity|].
  inversion Hb as [|? ? Hx Hr]; subst. simpl.
  destruct rest as [|y tl]; [reflexivity|].
  rewrite (pos_eq0_false x Hx). rewrite (IH x Hr). reflexivity.
Qed.

Lemma existsb_big l : big l ->
  existsb (fun x => (if Qlt_le_dec x 0 then true else false) || eq0 x) l = false.
Proof.
  induction 1 as [|a l Ha _ IH]; simpl; [reflexivity|].
  rewrite IH, (pos_eq0_false a Ha). destruct (Qlt_le_dec a 0); [exfalso; lra|reflexivity].
Qed.

Lemma existsb_false_big l :
  existsb (fun x => (if Qlt_le_dec x 0 then true else false) || eq0 x) l = false -> big l.
Proof.
  induction l as [|a l IH]; simpl; intro H; [constructor|].
  apply orb_false_iff in H. destruct H as [Ha Hl]. apply orb_false_iff in Ha. destruct Ha as [H1 H2].
  constructor; [|apply IH; exact Hl].
  apply eq0_false_pos; [exact H2|]. destruct (Qlt_le_dec a 0); [discriminate|lra].
Qed.

(* ---- the three possible outputs ---------------------------------------------------------------- *)

Definition canon_shape (off' : Q) (c : list Q) : Prop :=
  (c = [] /\ off' = 0) \/ (c = [0] /\ off' = 0) \/ (big c /\ c <> [] /\ stopb c = true).

Lemma step_first_nonempty off d o d' : d <> [] -> step_first eps off d = Go o d' -> d' <> [].
Proof.
  unfold step_first. intros Hd E. destruct d as [|x tl]; [congruence|].
  destruct (eq0 x).
  - destruct tl as [|a [|b tl']]; try discriminate. inversion E; subst.
    simpl. destruct tl'; simpl; congruence.
  - inversion E; subst. congruence.
Qed.

Lemma step_last_nonempty off d o d' : step_last eps off d = Go o d' -> d' <> [].
Proof.
  unfold step_last. intro E. destruct (rev d) as [|z tl] eqn:Er; [discriminate|].
  destruct (eq0 z).
  - destruct tl as [|y [|x tl']]; try discriminate. inversion E; subst.
    destruct (rev (x :: tl')) eqn:E2; [|congruence].
    exfalso. apply (f_equal (@length Q)) in E2. rewrite rev_length in E2. simpl in E2. lia.
  - inversion E; subst. intro H. subst d'. discriminate.
Qed.

Lemma rm_mid_zeros_nonempty rest : forall prev, rm_mid_zeros eps prev rest <> [].
Proof.
  assert (H : forall n rest prev, (length rest <= n)%nat -> rm_mid_zeros eps prev rest <> []).
  { induction n as [|n IH]; intros r prev Hl.
    - destruct r; simpl in *; [congruence|lia].
    - destruct r as [|x [|y tl]]; simpl; try congruence.
      destruct (eq0 x); [apply IH; simpl in Hl; lia|congruence]. }
  intros prev. apply (H (length rest)). lia.
Qed.

Lemma canon_shape_ok off d off' c : dash_canonical eps off d = (off', c) -> canon_shape off' c.
Proof.
  unfold dash_canonical. intro E. destruct d as [|d0 rest].
  - inversion E; subst. left. auto.
  - destruct (step_first eps off (rm_mid_zeros eps d0 rest)) as [o r|off2 d2] eqn:E1.
    + unfold step_first in E1. destruct (rm_mid_zeros eps d0 rest) as [|x tl]; [discriminate|].
      destruct (eq0 x); [|discriminate].
      destruct tl as [|a [|b tl']]; inversion E1; subst; inversion E; subst; right; left; auto.
    + destruct (step_last eps off2 d2) as [o r|off3 d3] eqn:E2.
      * unfold step_last in E2. destruct (rev d2) as [|z tl].
        { inversion E2; subst; inversion E; subst. left. auto. }
        destruct (eq0 z); [|discriminate].
        destruct tl as [|y [|x tl']]; inversion E2; subst; inversion E; subst; left; auto.
      * destruct (existsb _ d3) eqn:Ex.
        { inversion E; subst. right; left; auto. }
        inversion E; subst. right; right.
        pose proof (existsb_false_big d3 Ex) as Hb.
        split; [apply rm_repeat_big; exact Hb|]. split.
        -- apply rm_repeat_nonempty. eapply step_last_nonempty; eauto.
        -- apply rm_repeat_reaches_stop. lia.
Qed.

(** dashCanonical is idempotent: a second pass (Dash called by the renderer on checkDash's result) changes nothing *)
Lemma canon_idem off d off' c : dash_canonical eps off d = (off', c) -> dash_canonical eps off' c = (off', c).
Proof.
  intro E. destruct (canon_shape_ok _ _ _ _ E) as [[Hc Ho]|[[Hc Ho]|(Hb & Hne & Hs)]]; subst.
  - reflexivity.
  - unfold dash_canonical. simpl. rewrite (zero_eq0 0) by reflexivity. reflexivity.
  - destruct c as [|x rest]; [congruence|]. unfold dash_canonical.
    inversion Hb as [|? ? Hx Hr]; subst.
    rewrite (rm_mid_zeros_big rest x Hr).
    unfold step_first. rewrite (pos_eq0_false x Hx).
    unfold step_last. destruct (rev (x :: rest)) as [|z tl] eqn:Er.
    { exfalso. apply (f_equal (@length Q)) in Er. rewrite rev_length in Er. simpl in Er. lia. }
    assert (Hz : eps < z).
    { unfold big in Hb. rewrite Forall_forall in Hb. apply Hb. apply in_rev. rewrite Er. left. reflexivity. }
    rewrite (pos_eq0_false z Hz). rewrite (existsb_big _ Hb).
    rewrite (rm_repeat_stop _ _ Hs). reflexivity.
Qed.

(* ---- degenerate patterns ------------------------------------------------------------------------ *)

(** empty pattern: Dash returns the path itself *)
Lemma dash_empty start off L : dash_gen eps start off [] L = DIdentity.
Proof. reflexivity. Qed.

Lemma rm_mid_zeros_allzero : forall n rest prev, (length rest <= n)%nat -> prev == 0 ->
  Forall (fun x => x == 0) rest ->
  exists p, p == 0 /\ (rm_mid_zeros eps prev rest = [p] \/ exists x, rm_mid_zeros eps prev rest = [p; x]).
Proof.
  induction n as [|n IH]; intros rest prev Hl Hp Hz.
  - destruct rest; simpl in Hl; [|lia]. exists prev. split; [exact Hp|left; reflexivity].
  - destruct rest as [|x [|y tl]].
    + exists prev. split; [exact Hp|left; reflexivity].
    + exists prev. split; [exact Hp|right; exists x; reflexivity].
    + inversion Hz as [|? ? Hx Hz']; subst. inversion Hz' as [|? ? Hy Hz'']; subst.
      simpl. rewrite (zero_eq0 x Hx). apply IH; [simpl in Hl; lia|lra|exact Hz''].
Qed.

(** all-zero pattern: Dash returns nothing *)
Lemma dash_allzero start off d L : d <> [] -> Forall (fun x => x == 0) d ->
  dash_gen eps start off d L = DNothing.
Proof.
  intros Hne Hz. destruct d as [|d0 rest]; [congruence|]. inversion Hz as [|? ? H0 Hr]; subst.
  destruct (rm_mid_zeros_allzero (length rest) rest d0 ltac:(lia) H0 Hr) as (p & Hp & [E|[x E]]);
    unfold dash_gen, dash_canonical; rewrite E; unfold step_first; rewrite (zero_eq0 p Hp); reflexivity.
Qed.

(* ---- end-to-end: Dash keeps exactly the positions that are [on] (canonical pattern) -------------- *)

Lemma dbl_even c : Nat.even (length (dbl c)) = true.
Proof.
  unfold dbl. destruct (Nat.odd (length c)) eqn:E.
  - rewrite app_length, Nat.even_add. destruct (Nat.even (length c)); reflexivity.
  - rewrite <- Nat.negb_odd, E. reflexivity.
Qed.

Lemma dbl_allpos c : allpos c -> allpos (dbl c).
Proof. intro H. unfold dbl. destruct (Nat.odd (length c)); [apply Forall_app; split|]; exact H. Qed.

Lemma dbl_nonempty c : c <> [] -> dbl c <> [].
Proof. unfold dbl. destruct c; [congruence|]. destruct (Nat.odd _); simpl; congruence. Qed.

Lemma big_not_zero1 c : big c -> is_zero1 c = false.
Proof.
  intro H. destruct c as [|x [|y c']]; try reflexivity. inversion H; subst. simpl.
  destruct (Qeq_bool x 0) eqn:E; [|reflexivity]. apply Qeq_bool_iff in E. exfalso. lra.
Qed.

(** dash_intervals_spec.  For every input (any offset, any dash array) on which Dash makes cuts: with
    (off', c) the canonical form, the kept pieces are exactly {s in [0,L) | on c off' s}, up to the Epsilon cut:
    a cut the pattern prescribes in [L - Epsilon, L) is not made, hence the claim for s + Epsilon < L. *)
Lemma dash_sel_canonical off d L off' c t ie :
  dash_canonical eps off d = (off', c) -> dash_model eps off d L = DCuts t ie ->
  forall s, 0 <= s -> s + eps < L -> sel t ie s = on c off' s.
Proof.
  intros Ec Em s Hs0 Hs1. unfold dash_model, dash_gen in Em. rewrite Ec in Em.
  destruct (canon_shape_ok _ _ _ _ Ec) as [[Hc Ho]|[[Hc Ho]|(Hb & Hne & Hs)]]; subst; try discriminate.
  assert (Hn : is_nil c = false) by (destruct c; [congruence|reflexivity]).
  rewrite Hn, (big_not_zero1 c Hb) in Em.
  destruct (dash_start off' (dbl c)) as [i0 pos0] eqn:Es.
  destruct (dash_loop eps _ (dbl c) L i0 pos0) as [[t' ie']|] eqn:El; [|discriminate].
  inversion Em; subst t' ie'; clear Em.
  pose proof (dbl_allpos c (big_allpos c Hb)) as Hp.
  pose proof (dash_start_phase (dbl c) off' i0 pos0 Hp (dbl_nonempty c Hne) Es) as Hph.
  unfold on. eapply sel_spec; eauto. apply dbl_even.
Qed.

(** closed_join_rule, end-to-end *)
Lemma closed_join_rule off d L off' c t ie :
  dash_canonical eps off d = (off', c) -> dash_model eps off d L = DCuts t ie -> t <> [] ->
  join_decision true t ie = on c off' 0 && ends_in_dash ie
  /\ (forall s, 0 <= s -> s + eps < L -> Forall (fun b => b <= s) t -> ends_in_dash ie = on c off' s)
  /\ Forall (fun b => 0 < b /\ b + eps < L) t.
Proof.
  intros Ec Em Hne'. unfold dash_model, dash_gen in Em. rewrite Ec in Em.
  destruct (canon_shape_ok _ _ _ _ Ec) as [[Hc Ho]|[[Hc Ho]|(Hb & Hne & Hs)]]; subst; try discriminate.
  assert (Hn : is_nil c = false) by (destruct c; [congruence|reflexivity]).
  rewrite Hn, (big_not_zero1 c Hb) in Em.
  destruct (dash_start off' (dbl c)) as [i0 pos0] eqn:Es.
  destruct (dash_loop eps _ (dbl c) L i0 pos0) as [[t' ie']|] eqn:El; [|discriminate].
  inversion Em; subst t' ie'; clear Em.
  pose proof (dbl_allpos c (big_allpos c Hb)) as Hp.
  pose proof (dash_start_phase (dbl c) off' i0 pos0 Hp (dbl_nonempty c Hne) Es) as Hph.
  destruct (join_rule eps (dbl c) L off' Hp (dbl_even c) _ i0 pos0 t ie Hph El Hne') as [J1 J2].
  split; [|split].
  - unfold on. rewrite J1. reflexivity.
  - intros s H0 H1 H2. unfold on. apply J2; assumption.
  - eapply loop_cuts; eauto. apply dbl_even.
Qed.

(* ---- checkDash / Context.DrawPath agree with Dash ----------------------------------------------- *)

Lemma loop_covered fuel dd L i pos : L <= nth i dd 0 + pos -> dash_loop eps fuel dd L i pos = Some ([], i).
Proof.
  intro H. destruct fuel; simpl; destruct (Qlt_le_dec (pos + nth i dd 0 + eps) L); try reflexivity; exfalso; lra.
Qed.

(** check_dash_agrees (after the fix): whatever Context.DrawPath decides for a path of total length Ltot
    (no stroke / solid stroke / dashing with the returned offset and array) draws, on every subpath of length
    L <= Ltot and at every position s, exactly what Dash(offset, d...) draws. *)
Lemma check_dash_agrees off d Ltot L s : L <= Ltot ->
  drawpath_sel eps off d Ltot L s = dres_sel (dash_model eps off d L) s.
Proof.
  intro HL. unfold drawpath_sel, check_dash, dash_model at 2, dash_gen.
  destruct (dash_canonical eps off d) as [off' c] eqn:Ec.
  destruct (canon_shape_ok _ _ _ _ Ec) as [[Hc Ho]|[[Hc Ho]|(Hb & Hne & Hs)]]; subst.
  - reflexivity.
  - simpl. reflexivity.
  - assert (Hn : is_nil c = false) by (destruct c; [congruence|reflexivity]).
    rewrite Hn, (big_not_zero1 c Hb).
    destruct (dash_start off' (dbl c)) as [i pos] eqn:Es.
    destruct (Qlt_le_dec (nth i (dbl c) 0 + pos) Ltot) as [Hlt|Hge].
    + simpl negb. cbv iota. rewrite Hn.
      unfold dash_model, dash_gen. rewrite (canon_idem _ _ _ _ Ec), Hn, (big_not_zero1 c Hb), Es. reflexivity.
    + rewrite loop_covered by lra.
      destruct (Nat.even i) eqn:Ei; simpl; unfold sel, ends_in_dash, kept; simpl; rewrite Ei; reflexivity.
Qed.

End Canon.

(** C04 — building blocks of the stroker over Q with relational normals: a normal n of a segment with
    direction d and half width hw is any vector with  n.d = 0,  n.n = hw^2  (the code computes it with a square
    root; the model takes it as an input constrained by these polynomial relations). *)
From Coq Require Import QArith Lqa Lia.
Open Scope Q_scope.

Definition qdot (ax ay bx by_ : Q) : Q := ax * bx + ay * by_.
Definition qcross (ax ay bx by_ : Q) : Q := ax * by_ - ay * bx.

(** Rot90CW (x, y) = (y, -x)  (util.go Point.Rot90CW) *)
Definition rot90cw_x (x y : Q) : Q := y.
Definition rot90cw_y (x y : Q) : Q := - x.

(* ------------------------------------------------------------------ the butt quad of a segment *)

(** X is in the rectangle p0 +- n, p1 +- n  (d = p1 - p0, n perpendicular to d, |n|^2 = hw2), written with the
    four half-plane tests the outline encodes *)
Definition in_quad (dx dy nx ny hw2 : Q) (vx vy : Q) : Prop :=
  (* v = X - p0 *)
  0 <= qdot vx vy dx dy /\ qdot vx vy dx dy <= qdot dx dy dx dy /\
  - hw2 <= qdot vx vy nx ny /\ qdot vx vy nx ny <= hw2.

(** ... which is exactly: the foot of X lies on the segment and the perpendicular distance is at most hw:
    cross(d, v)^2 <= hw2 * |d|^2 *)
Theorem segment_quad_exact dx dy nx ny hw2 vx vy :
  qdot nx ny dx dy == 0 -> qdot nx ny nx ny == hw2 -> 0 < qdot dx dy dx dy -> 0 < hw2 ->
  (in_quad dx dy nx ny hw2 vx vy <->
   0 <= qdot vx vy dx dy /\ qdot vx vy dx dy <= qdot dx dy dx dy /\
   qcross dx dy vx vy * qcross dx dy vx vy <= hw2 * qdot dx dy dx dy).
Proof.
  unfold in_quad, qdot, qcross. intros Hperp Hlen Hd Hhw.
  (* (v.n)^2 * |d|^2 = cross(d,v)^2 * |n|^2  when n is perpendicular to d *)
  assert (L : (vx * nx + vy * ny) * (vx * nx + vy * ny) * (dx * dx + dy * dy)
              == (dx * vy - dy * vx) * (dx * vy - dy * vx) * hw2).
  { rewrite <- Hlen.
    assert (E : (vx * nx + vy * ny) * (vx * nx + vy * ny) * (dx * dx + dy * dy)
                - (dx * vy - dy * vx) * (dx * vy - dy * vx) * (nx * nx + ny * ny)
                == (nx * dx + ny * dy) *
                   (dx * nx * (vx * vx) - dx * nx * (vy * vy) + 2 * dx * ny * vx * vy + 2 * dy * nx * vx * vy
                    - dy * ny * (vx * vx) + dy * ny * (vy * vy))) by ring.
    rewrite Hperp in E. lra. }
  set (s := vx * nx + vy * ny) in *. set (c := dx * vy - dy * vx) in *. set (l := dx * dx + dy * dy) in *.
  split.
  - intros (H1 & H2 & H3 & H4). repeat split; try assumption.
    assert (Hs : s * s <= hw2 * hw2).
    { destruct (Qlt_le_dec s 0).
      - assert (0 <= (hw2 + s) * (hw2 - s)) by (apply Qmult_le_0_compat; lra). lra.
      - assert (0 <= (hw2 + s) * (hw2 - s)) by (apply Qmult_le_0_compat; lra). lra. }
    assert (Hsl : s * s * l <= hw2 * hw2 * l) by (apply Qmult_le_compat_r; lra).
    (* c^2 * hw2 <= hw2 * hw2 * l, divide by hw2 > 0 *)
    assert (Hc : (c * c) * hw2 <= (hw2 * l) * hw2) by lra.
    apply Qmult_lt_0_le_reg_r in Hc; [lra | exact Hhw].
  - intros (H1 & H2 & H3). repeat split; try assumption.
    + (* s^2 * l = c^2 * hw2 <= hw2^2 * l  ->  s^2 <= hw2^2 -> -hw2 <= s *)
      assert (Hc : (c * c) * hw2 <= (hw2 * l) * hw2) by (apply Qmult_le_compat_r; lra).
      assert (Hsl : (s * s) * l <= (hw2 * hw2) * l) by lra.
      apply Qmult_lt_0_le_reg_r in Hsl; [|exact Hd].
      destruct (Qlt_le_dec s (- hw2)) as [Hlt|]; [|assumption].
      exfalso. assert (0 < (- hw2 - s) * (hw2 - s)) by (apply Qmult_lt_0_compat; lra). lra.
    + assert (Hc : (c * c) * hw2 <= (hw2 * l) * hw2) by (apply Qmult_le_compat_r; lra).
      assert (Hsl : (s * s) * l <= (hw2 * hw2) * l) by lra.
      apply Qmult_lt_0_le_reg_r in Hsl; [|exact Hd].
      destruct (Qlt_le_dec hw2 s) as [Hlt|]; [|assumption].
      exfalso. assert (0 < (s - hw2) * (s + hw2)) by (apply Qmult_lt_0_compat; lra). lra.
Qed.

(* ------------------------------------------------------------------ turn direction *)

(** the joiners decide the bend direction by  cw := 0 <= Rot90CW(n0) . n1.  With n_i = Rot90CW(d_i) scaled by
    positive factors k_i this is  0 <= - k0 k1 cross(d0, d1)  <-> cross(d0, d1) <= 0 : a turn to the right. *)
Theorem cw_iff_right_turn d0x d0y d1x d1y k0 k1 :
  0 < k0 -> 0 < k1 ->
  let n0x := k0 * rot90cw_x d0x d0y in let n0y := k0 * rot90cw_y d0x d0y in
  let n1x := k1 * rot90cw_x d1x d1y in let n1y := k1 * rot90cw_y d1x d1y in
  (0 <= qdot (rot90cw_x n0x n0y) (rot90cw_y n0x n0y) n1x n1y <-> qcross d0x d0y d1x d1y <= 0).
Proof.
  unfold qdot, qcross, rot90cw_x, rot90cw_y. cbv zeta. intros H0 H1.
  assert (E : k0 * - d0x * (k1 * d1y) + - (k0 * d0y) * (k1 * - d1x) == - (k0 * k1) * (d0x * d1y - d0y * d1x)) by ring.
  assert (Hk : 0 < k0 * k1) by (apply Qmult_lt_0_compat; assumption).
  rewrite E. split; intros H.
  - destruct (Qlt_le_dec 0 (d0x * d1y - d0y * d1x)) as [Hp|]; [|assumption].
    exfalso. assert (0 < k0 * k1 * (d0x * d1y - d0y * d1x)) by (apply Qmult_lt_0_compat; assumption). lra.
  - assert (0 <= k0 * k1 * - (d0x * d1y - d0y * d1x)) by (apply Qmult_le_0_compat; lra). lra.
Qed.

(* ------------------------------------------------------------------ the miter point *)

(** mid = pivot + lambda (n0 + n1) with lambda = hw2 / (hw2 + n0.n1): the code computes the same point through
    the half angle theta, d = hw / cos theta and Norm(d). *)
Definition miter_lambda (hw2 c : Q) : Q := hw2 / (hw2 + c).

(** the miter point lies on both offset lines (the lines through pivot + n_i perpendicular to n_i) *)
Theorem miter_point n0x n0y n1x n1y hw2 :
  qdot n0x n0y n0x n0y == hw2 -> qdot n1x n1y n1x n1y == hw2 ->
  let c := qdot n0x n0y n1x n1y in
  ~ hw2 + c == 0 ->
  let l := miter_lambda hw2 c in
  let mx := l * (n0x + n1x) in let my := l * (n0y + n1y) in
  qdot (mx - n0x) (my - n0y) n0x n0y == 0 /\ qdot (mx - n1x) (my - n1y) n1x n1y == 0.
Proof.
  unfold qdot, miter_lambda. cbv zeta. intros H0 H1 Hc. split.
  - setoid_replace ((hw2 / (hw2 + (n0x * n1x + n0y * n1y)) * (n0x + n1x) - n0x) * n0x +
                    (hw2 / (hw2 + (n0x * n1x + n0y * n1y)) * (n0y + n1y) - n0y) * n0y)
      with (hw2 / (hw2 + (n0x * n1x + n0y * n1y)) * ((n0x * n0x + n0y * n0y) + (n0x * n1x + n0y * n1y))
            - (n0x * n0x + n0y * n0y)) by ring.
    rewrite H0. field. exact Hc.
  - setoid_replace ((hw2 / (hw2 + (n0x * n1x + n0y * n1y)) * (n0x + n1x) - n1x) * n1x +
                    (hw2 / (hw2 + (n0x * n1x + n0y * n1y)) * (n0y + n1y) - n1y) * n1y)
      with (hw2 / (hw2 + (n0x * n1x + n0y * n1y)) * ((n1x * n1x + n1y * n1y) + (n0x * n1x + n0y * n1y))
            - (n1x * n1x + n1y * n1y)) by ring.
    rewrite H1. field. exact Hc.
Qed.

(** its squared distance from the pivot is 2 hw2^2 / (hw2 + c); the join is an unclipped miter exactly when
    this is at most (limit hw)^2, so an unclipped miter stays within limit * hw of the vertex *)
Theorem miter_length n0x n0y n1x n1y hw2 :
  qdot n0x n0y n0x n0y == hw2 -> qdot n1x n1y n1x n1y == hw2 ->
  let c := qdot n0x n0y n1x n1y in
  ~ hw2 + c == 0 ->
  let l := miter_lambda hw2 c in
  let mx := l * (n0x + n1x) in let my := l * (n0y + n1y) in
  qdot mx my mx my == 2 * hw2 * hw2 / (hw2 + c).
Proof.
  unfold qdot, miter_lambda. cbv zeta. intros H0 H1 Hc.
  setoid_replace (hw2 / (hw2 + (n0x * n1x + n0y * n1y)) * (n0x + n1x) * (hw2 / (hw2 + (n0x * n1x + n0y * n1y)) * (n0x + n1x)) +
                  hw2 / (hw2 + (n0x * n1x + n0y * n1y)) * (n0y + n1y) * (hw2 / (hw2 + (n0x * n1x + n0y * n1y)) * (n0y + n1y)))
    with (hw2 / (hw2 + (n0x * n1x + n0y * n1y)) * (hw2 / (hw2 + (n0x * n1x + n0y * n1y))) *
          ((n0x * n0x + n0y * n0y) + (n1x * n1x + n1y * n1y) + 2 * (n0x * n1x + n0y * n1y))) by ring.
  rewrite H0, H1. field. exact Hc.
Qed.

(* ------------------------------------------------------------------ caps *)

(** the square cap's corners pivot + e +- n0 with e = Rot90CCW(n0) = (-ny, nx) are at squared distance 2 hw2 from
    the end point; e has length hw and is perpendicular to n0 (the cap extends exactly hw beyond the end) *)
Theorem square_cap_extent nx ny hw2 :
  qdot nx ny nx ny == hw2 ->
  (qdot (- ny + nx) (nx + ny) (- ny + nx) (nx + ny) == 2 * hw2) /\
  (qdot (- ny - nx) (nx - ny) (- ny - nx) (nx - ny) == 2 * hw2) /\
  (qdot (- ny) nx (- ny) nx == hw2) /\ (qdot (- ny) nx nx ny == 0).
Proof.
  unfold qdot. intros H. repeat split.
  - setoid_replace ((- ny + nx) * (- ny + nx) + (nx + ny) * (nx + ny)) with (2 * (nx * nx + ny * ny)) by ring. now rewrite H.
  - setoid_replace ((- ny - nx) * (- ny - nx) + (nx - ny) * (nx - ny)) with (2 * (nx * nx + ny * ny)) by ring. now rewrite H.
  - setoid_replace (- ny * - ny + nx * nx) with (nx * nx + ny * ny) by ring. exact H.
  - ring.
Qed.

(* ------------------------------------------------------------------ similarity transforms *)

(** for a similarity (a b; -b a) or a reflected similarity (a b; b -a), squared distances scale by k2 = a^2+b^2:
    stroking after the transform with width*k equals transforming the stroke (shared with C12) *)
Theorem similarity_scales_distance a b x y :
  (qdot (a * x + b * y) (- b * x + a * y) (a * x + b * y) (- b * x + a * y) == (a * a + b * b) * qdot x y x y) /\
  (qdot (a * x + b * y) (b * x - a * y) (a * x + b * y) (b * x - a * y) == (a * a + b * b) * qdot x y x y).
Proof. unfold qdot. split; ring. Qed.

(* non-vacuity: a right angle with hw = 1: n0 = (0,-1), n1 = (1,0) *)
Example miter_right_angle :
  let l := miter_lambda 1 (qdot 0 (-1) 1 0) in
  (l == 1) /\ (qdot (l * (0 + 1)) (l * (-1 + 0)) (l * (0 + 1)) (l * (-1 + 0)) == 2).
Proof. vm_compute. split; reflexivity. Qed.

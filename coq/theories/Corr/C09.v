(** Correspondence judge for C09 (Length / SplitAt / Reverse). *)
From Coq Require Import ZArith QArith Qabs Qminmax Qround List Bool.
From CV Require Import Geom.Winding.
From CV Require Import Base.Dy PathEnc.Enc Geom.Matrix Geom.Bezier Split.Reverse Split.SplitAt Split.Cert.
Import ListNotations.
Open Scope Q_scope.

Definition bit (b : bool) (k : Z) : Z := if b then k else 0%Z.

(* ---- exact equality of structural paths ------------------------------------------------------- *)
Definition seg_eqb (a b : seg) : bool :=
  match a, b with
  | SM p, SM q | SL p, SL q | SZ p, SZ q => pt_eqb p q
  | SQ c p, SQ c' q => pt_eqb c c' && pt_eqb p q
  | SC c1 c2 p, SC d1 d2 q => pt_eqb c1 d1 && pt_eqb c2 d2 && pt_eqb p q
  | SA rx ry phi fl p, SA rx' ry' phi' fl' q =>
    Qeq_bool rx rx' && Qeq_bool ry ry' && Qeq_bool phi phi' && Qeq_bool fl fl' && pt_eqb p q
  | _, _ => false
  end.
Definition segs_eqb := all2 seg_eqb.

(** on-curve points (MoveTo points and segment ends), consecutive duplicates removed *)
Fixpoint dedup (l : list pt) : list pt :=
  match l with
  | a :: ((b :: _) as r) => if pt_eqb a b then dedup r else a :: dedup r
  | _ => l
  end.
Definition verts (p : list seg) : list pt := dedup (map seg_end p).

(** documented normal form: a LineTo back to the start followed by a zero-length Close is a Close *)
Fixpoint nf (p : list seg) : list seg :=
  match p with
  | SL q :: ((SZ z :: _) as r) => if pt_eqb q z then nf r else SL q :: nf r
  | s :: r => s :: nf r
  | [] => []
  end.

Definition rel_close (a b tol : Q) : bool :=
  Qle_bool (Qabs (a - b)) (tol * (1 + Qabs a)).

(** closed flag of every subpath, in order *)
Fixpoint closed_flags (p : list seg) (cur : option bool) : list bool :=
  match p with
  | [] => match cur with Some b => [b] | None => [] end
  | SM _ :: r => (match cur with Some b => [b] | None => [] end) ++ closed_flags r (Some false)
  | SZ _ :: r => closed_flags r (Some true)
  | _ :: r => closed_flags r (match cur with Some b => Some b | None => Some false end)
  end.

(* ---- R: Reverse -------------------------------------------------------------------------------- *)
Record rcase := mkR {
  r_p : list seg; r_rev : list seg; r_revrev : list seg; r_rev3 : list seg;
  r_len : Q; r_len_rev : Q; r_bounds_dev : Q;       (* max |difference| of the four Bounds() numbers *)
  r_closed : bool; r_closed_rev : bool;
  r_tol : Q;
  r_poly : list (list Winding.pt); r_poly_rev : list (list Winding.pt); r_samples : list Winding.pt;
  r_panic : bool }.

(** flags: 1 tie Reverse != model, 2 PROP point sequence not reversed, 4 PROP Length changed, 8 PROP Bounds changed,
    16 PROP closedness changed, 32 PROP not an involution (up to the normal form; triple = single),
    64 PROP winding number not negated, 128 PROP panic.   class: number of records *)
Definition judge_r (c : rcase) : list Z :=
  if r_panic c then [128%Z; 0%Z; 0%Z; 0%Z; 0%Z] else
  let m := reverse (r_p c) in
  let tie := negb (segs_eqb m (r_rev c)) in
  let p_pts := negb (all2 pt_eqb (verts (r_rev c)) (rev (verts (r_p c)))) in
  let p_len := negb (rel_close (r_len c) (r_len_rev c) (r_tol c)) in
  let p_bnd := negb (Qle_bool (r_bounds_dev c) (r_tol c * (1 + Qabs (r_len c)))) in
  let fl := closed_flags (r_p c) None in
  let p_cl := negb (all2 Bool.eqb (closed_flags (r_rev c) None) (rev fl))
              || (match fl with [_] => negb (Bool.eqb (r_closed c) (r_closed_rev c)) | _ => false end) in
  let p_inv := negb (segs_eqb (nf (r_revrev c)) (nf (r_p c)) && segs_eqb (r_rev3 c) (r_rev c)) in
  let p_wn := negb (forallb (fun q => (wn (r_poly_rev c) q =? - wn (r_poly c) q)%Z) (r_samples c)) in
  [ (bit tie 1 + bit p_pts 2 + bit p_len 4 + bit p_bnd 8 + bit p_cl 16 + bit p_inv 32 + bit p_wn 64)%Z;
    Z.of_nat (length (r_p c)); Z.of_nat (length (r_samples c)); 0%Z; 0%Z ].

(* ---- S: SplitAt / Length ------------------------------------------------------------------------ *)
Record pseg := mkPS { ps_ctrl : list qpt; ps_idx : Z; ps_s : Q; ps_u : Q }.
Record scase := mkS {
  s_slack : Q; s_in : list (list qpt); s_length : Q; s_cuts : list Q;     (* sorted positions handed to SplitAt *)
  s_pieces : list (list pseg);
  s_axis : bool; s_subpaths : list (list pt);        (* axis-aligned polyline: run the faithful model too *)
  s_panic : bool }.

Definition Kq : positive := 40.
Definition Nsub : nat := 16.

(** the certificates tile the input: (idx, s, u) in order, no gap, from (0,0) to (n-1,1) *)
Fixpoint tiles (n : Z) (cur_i : Z) (cur_u : Q) (l : list pseg) : bool :=
  match l with
  | [] => (cur_i =? n - 1)%Z && Qeq_bool cur_u 1 || ((n =? 0)%Z && (cur_i =? 0)%Z)
  | x :: r =>
    (((ps_idx x =? cur_i)%Z && Qeq_bool (ps_s x) cur_u)
     || ((ps_idx x =? cur_i + 1)%Z && Qeq_bool cur_u 1 && Qeq_bool (ps_s x) 0))
    && tiles n (ps_idx x) (ps_u x) r
  end.

Definition piece_lo (pc : list pseg) : Q := qsumr (map (fun x => len_lo Kq Nsub (ps_ctrl x)) pc).
Definition piece_hi (pc : list pseg) : Q := qsumr (map (fun x => len_hi Kq Nsub (ps_ctrl x)) pc).

Definition within1pc (sl v lo hi : Q) : bool :=
  Qle_bool (lo * (99 # 100) - sl) v && Qle_bool v (hi * (101 # 100) + sl).

(** the k-th cut must lie at arc length t_k: distance of t_k from the cumulated enclosure of pieces 0..k-1, and of
    Length() from the enclosure of all pieces; [None] = number of pieces does not fit the number of cuts.
    The verdict allows 1 % of the total length (the accuracy the code documents for its quadrature / inversion). *)
Definition outside (v lo hi : Q) : Q := Qmax 0 (Qmax (lo - v) (v - hi)).
Fixpoint cuts_dev (clo chi : Q) (cuts : list Q) (L : Q) (pcs : list (list pseg)) : option Q :=
  match pcs, cuts with
  | [], [] => Some (outside L clo chi)
  | [], [t] => Some (Qmax (Qabs (L - t)) (outside L clo chi))      (* a cut at the very end makes no piece *)
  | [pc], [] => Some (outside L (qadd clo (piece_lo pc)) (qadd chi (piece_hi pc)))
  | pc :: r, t :: cs =>
    let clo' := qadd clo (piece_lo pc) in let chi' := qadd chi (piece_hi pc) in
    match cuts_dev clo' chi' cs L r with Some d => Some (Qmax d (outside t clo' chi')) | None => None end
  | _, _ => None
  end.

(** polylines of a piece: a new polyline starts where a segment does not start at the previous end *)
Fixpoint polys_of (l : list pseg) (cur : list pt) : list (list pt) :=
  match l with
  | [] => match cur with [] => [] | _ => [cur] end
  | x :: r =>
    let a := hd (0, 0) (ps_ctrl x) in let b := last (ps_ctrl x) (0, 0) in
    match cur with
    | [] => polys_of r [a; b]
    | _ => if pt_eqb (last cur (0, 0)) a then polys_of r (cur ++ [b]) else cur :: polys_of r [a; b]
    end
  end.

Definition pt_near (sl : Q) (a b : pt) : bool := nearb sl a b.
Definition poly_near (sl : Q) := all2 (pt_near sl).
Definition piece_near (sl : Q) := all2 (poly_near sl).

(** flags: 1 tie (axis-aligned polylines: faithful split_at model), 2 PROP a piece segment is not a sub-curve of the
    input, 4 PROP pieces do not tile the input in order, 8 PROP a cut is not at the requested arc length (1 % + enclosure),
    16 PROP Length() outside the enclosure +-1 %, 64 PROP panic.   Output: [flags; #pieces; #curved piece segments] *)
Definition judge_s (c : scase) : list Z :=
  if s_panic c then [64%Z; 0%Z; 0%Z; 0%Z; 0%Z] else
  let sl := s_slack c in
  let all := concat (s_pieces c) in
  let cert := forallb (fun x => sub_ok sl (nth (Z.to_nat (ps_idx x)) (s_in c) []) (ps_ctrl x) (ps_s x) (ps_u x)
                                && (0 <=? ps_idx x)%Z) all in
  let tile := tiles (Z.of_nat (length (s_in c))) 0 0 all in
  let cuts := filter (fun t => negb (Qle_bool t 0)) (s_cuts c) in
  let L := s_length c in
  let cdev := cuts_dev 0 0 cuts L (s_pieces c) in
  let cok := match cdev with Some d => Qle_bool d (sl + L * (1 # 100)) | None => false end in
  let lo := qsumr (map (len_lo Kq Nsub) (s_in c)) in
  let hi := qsumr (map (len_hi Kq Nsub) (s_in c)) in
  let lok := within1pc sl (s_length c) lo hi in
  let permille := fun d => if Qle_bool L 0 then 0%Z else Qceiling (d / L * 1000) in
  let tie := s_axis c &&
             match s_cuts c, split_at len1 false (s_subpaths c) (s_cuts c) with
             | [], _ => false
             | _, Some m => negb (all2 (piece_near sl) m (map (fun pc => polys_of pc []) (s_pieces c)))
             | _, None => true
             end in
  [ (bit tie 1 + bit (negb cert) 2 + bit (negb tile) 4 + bit (negb cok) 8 + bit (negb lok) 16)%Z;
    Z.of_nat (length (s_pieces c));
    Z.of_nat (length (filter (fun x => (2 <? length (ps_ctrl x))%nat) all));
    match cdev with Some d => permille d | None => (-1)%Z end;
    permille (outside L lo hi) ].

(* ------------------------------------------------------------------ SplitAt on ONE elliptical arc *)
From CV Require Import Geom.Matrix Geom.MatrixProofs Geom.Ellipse.

(** a returned piece: the stored arc fields compared with the input's by the harness (same radii / rotation), its flags and
    end points, and Go's own Length() of it *)
Record apiece := mkAP { ap_same : bool; ap_large : bool; ap_sweep : bool; ap_s : qpt; ap_e : qpt; ap_len : Q }.
Record acase := mkA {
  aC : qpt; aRx : Q; aRy : Q; aCs : Q; aSn : Q;            (* centre, radii, rational (cos, sin) of the rotation *)
  aS : qpt; aE : qpt; aLarge : bool; aSweep : bool;         (* the input arc as handed to ArcTo *)
  aLen : Q; aCuts : list Q; aPieces : list apiece; aPanic : bool }.

(** a point in the plane of the unit circle of the ellipse: centre subtracted, axes aligned, radii divided out *)
Definition circ (c : acase) (p : qpt) : qpt :=
  let w := frame (aCs c) (aSn c) (qsub p (aC c)) in (fst w / aRx c, snd w / aRy c).
Definition on_unit (sl : Q) (u : qpt) : bool :=
  let n := fst u * fst u + snd u * snd u in Qle_bool (1 - sl) n && Qle_bool n (1 + sl).
Definition pt_eqb (a b : qpt) : bool := Qeq_bool (fst a) (fst b) && Qeq_bool (snd a) (snd b).

Fixpoint chained (prev : qpt) (ps : list apiece) : bool :=
  match ps with [] => true | p :: r => pt_eqb prev (ap_s p) && chained (ap_e p) r end.
Fixpoint last_end (d : qpt) (ps : list apiece) : qpt := match ps with [] => d | p :: r => last_end (ap_e p) r end.

(** the flag of a piece against the geometry: the arc from u to v in the sweep direction is longer than a half turn iff
    arc_large says so (Geom/Ellipse.v: the sign of the cross product in the circle plane); not judged within 2^-20 of a
    half turn *)
Definition large_ok (c : acase) (p : apiece) : bool :=
  let u := circ c (ap_s p) in let v := circ c (ap_e p) in
  let x := qcross u v in
  if Qle_bool (Qabs x) (1 # 1048576) then true else Bool.eqb (ap_large p) (arc_large (ap_sweep p) u v).

(** the cut points advance along the arc: each lies in the span from the previous one to the end *)
Fixpoint advancing (c : acase) (prev : qpt) (ps : list apiece) : bool :=
  match ps with
  | [] | [_] => true
  | p :: r => in_spanb (aSweep c) (circ c prev) (circ c (aE c)) (circ c (ap_e p)) && advancing c (ap_e p) r
  end.

Fixpoint cum_ok (tol acc : Q) (cuts : list Q) (ps : list apiece) : bool :=
  match cuts, ps with
  | t :: cuts', p :: ps' => let acc' := acc + ap_len p in
                            Qle_bool (Qabs (acc' - t)) tol && cum_ok tol acc' cuts' ps'
  | _, _ => true
  end.

(** [flags; #pieces; 0]: 1 tie (the generator's arc: end points on the ellipse, large flag consistent), 2 PROP a piece is
    not an arc of the same ellipse in the same direction, 4 PROP pieces do not chain from the start to the end of the arc,
    8 PROP a cut point is off the ellipse or does not advance along the arc, 16 PROP a piece's large-arc flag contradicts
    its end points (the piece goes the other way round), 32 PROP number of pieces, 64 PROP Go's own lengths: the pieces do
    not sum to Length() or a cut is not within 1 % of Length() of its position, 128 PROP panic *)
Definition judge_a (c : acase) : list Z :=
  if aPanic c then [128%Z; 0%Z; 0%Z] else
  let sl := 1 # 1073741824 in
  let u := circ c (aS c) in let v := circ c (aE c) in
  let gen_ok := on_unit sl u && on_unit sl v &&
                (Qle_bool (Qabs (qcross u v)) (1 # 1048576) || Bool.eqb (aLarge c) (arc_large (aSweep c) u v)) in
  let ps := aPieces c in
  let inner := filter (fun t => Qle_bool (1 # 100000) t && Qle_bool t (aLen c - (1 # 100000))) (aCuts c) in
  let same := forallb (fun p => ap_same p && Bool.eqb (ap_sweep p) (aSweep c)) ps in
  let chain := chained (aS c) ps && pt_eqb (last_end (aS c) ps) (aE c) in
  let onell := forallb (fun p => on_unit sl (circ c (ap_e p))) ps && advancing c (aS c) ps in
  let larges := forallb (large_ok c) ps in
  let cnt := (length ps =? S (length inner))%nat in
  let total := fold_right (fun p a => ap_len p + a) 0 ps in
  let lens := Qle_bool (Qabs (total - aLen c)) (aLen c * (1 # 100) + (1 # 1000000)) &&   (* Length() is itself a quadrature: 1 % *)
              cum_ok (aLen c * (1 # 100) + (1 # 1000000)) 0 inner ps in
  (* worst distance of a cumulated (Go's own) piece length from its cut position, and of the total from Length(), in 1/1000 of Length() *)
  let devs := (fix go (acc : Q) (cuts : list Q) (l : list apiece) : list Q :=
                 match cuts, l with t :: cuts', p :: l' => Qabs (acc + ap_len p - t) :: go (acc + ap_len p) cuts' l' | _, _ => [] end) 0 inner ps in
  let worst := fold_right (fun d m => if Qle_bool m d then d else m) (Qabs (total - aLen c)) devs in
  [ (bit (negb gen_ok) 1 + bit (negb same) 2 + bit (negb chain) 4 + bit (negb onell) 8 + bit (negb larges) 16 +
     bit (negb cnt) 32 + bit (cnt && negb lens) 64)%Z; Z.of_nat (length ps);
    (if Qle_bool (aLen c) 0 then 0 else Qfloor (worst * 1000 / aLen c))%Z ].

Inductive case09 := CR (c : rcase) | CS (c : scase) | CA (c : acase).
Definition judge (c : case09) : list Z := match c with CR r => judge_r r | CS s => judge_s s | CA a => judge_a a end.

(** C17 — faithful functional model of [Linebreak] / [mainLoop] of /repo/text/linebreak.go.

    Written line by line after the Go code, generic over the number structure of KPSpec.v:
    - the active list is a Gallina list in the order of the Go linked list; [mainLoop] is one pass over it
      that treats maximal runs "next.Line < this.Line+1" as one group (the outer/inner loop pair), keeps per
      fitness class the cheapest candidate (D, A, R arrays), deactivates a node when ratio < -1 or at a
      forced break (appending it to the inactive list), records [nextTolerance], and inserts the new nodes
      of a group directly behind the group's surviving nodes (InsertBefore(next group head) / Push);
    - [pass] is the [for b, item := range items] loop with the running sums W, Y, Z, the legality test
      (including the items[b+1] read that panics on trailing glue), the restart request
      ([tolerance != nextTolerance] -> goto START) and the overflow fallback over the inactive list;
    - [lb_loop] is the [goto START] loop with explicit fuel (exhaustion = [OutOfFuel]);
    - [finish] selects the active node (fewest demerits, then looseness), walks the parent chain and
      post-processes widths and ratios exactly like the Go code.
    A node carries its ancestors' records ([nAnc], parent first) instead of a parent pointer. *)
From Coq Require Import ZArith List Bool Lia.
From CV Require Import Text.KPSpec.
Import ListNotations.

Section KP.
Context {num : Type} (O : ops num) (P : params num).

Notation tri := (@tri num).

(** what the post-processing needs of a breakpoint on the parent chain *)
Record brk := mkBrk { bPos : nat; bLine : nat; bFit : nat; bRatio : num; bWidth : num; bW : num; bDem : num }.

Record node := mkNode {
  nPos : nat; nLine : nat; nFit : nat; nWidth : num; nSums : tri; nRatio : num; nDem : num;
  nAnc : list brk }.

Definition brk_of (a : node) : brk := mkBrk (nPos a) (nLine a) (nFit a) (nRatio a) (nWidth a) (tW (nSums a)) (nDem a).

(** newLinebreaker: &Breakpoint{Fitness: 1} *)
Definition root : node := mkNode 0 0 1 (n0 O) (t0 O) (n0 O) (n0 O) [].

(** per fitness class: D[c], A[c], R[c]; None = D[c] is +Inf *)
Definition cbest := option (num * node * num).
Record gacc := mkG { gD : list cbest; gDmin : option num }.
Definition g_empty : gacc := mkG [None; None; None; None] None.

Fixpoint upd {A} (c : nat) (v : A) (l : list A) : list A :=
  match l, c with
  | [], _ => []
  | _ :: l', 0%nat => v :: l'
  | x :: l', S c' => x :: upd c' v l'
  end.

Definition opt_ltb (d : num) (o : option num) : bool := match o with None => true | Some x => nltb O d x end.

Section Pass.
Variable items : list (item num).
Variable width : num.
Variable tol : option num.      (* the current tolerance; None = +Inf *)

Definition flag_at (k : nat) : bool := match nth_error items k with Some it => ifl it | None => false end.

(** body of the inner loop for one active node: (deactivate?, accumulators, nextTolerance) *)
Definition visit (it : item num) (cur : tri) (a : node) (g : gacc) (ntol : option num) : bool * gacc * option num :=
  let r := adj_ratio O P width cur it (nSums a) in
  let deact := (match r with NegInf => true | Fin x => nltb O x (nm1 O) end) || forced O P it in
  match r with
  | NegInf => (deact, g, ntol)
  | Fin x =>
    if nleb O (nm1 O) x && tol_leb O x tol then
      let '(dl, c) := line_dem O P it x (flag_at (nPos a)) (nFit a) in
      let d := nadd O dl (nDem a) in
      let lt := match nth c (gD g) None with None => true | Some (d0, _, _) => nltb O d d0 end in
      if lt then (deact, mkG (upd c (Some (d, a, x)) (gD g)) (if opt_ltb d (gDmin g) then Some d else gDmin g), ntol)
      else (deact, g, ntol)
    else if tol_ltb O tol x then
      (deact, g, match ntol with None => Some x | Some t => Some (nmin O t x) end)
    else (deact, g, ntol)
  end.

(** end of a group: the new active nodes for the break at b, classes in increasing order *)
Definition flush (b : nat) (it : item num) (cur : tri) (g : gacc) : list node :=
  match gDmin g with
  | None => []
  | Some dmin =>
    let sums := compute_sum O P items b cur in
    let wd := if is_pen it then nadd O (tW cur) (iw it) else tW cur in
    flat_map (fun c => match nth c (gD g) None with
                       | Some (d, a, r) =>
                         if nleb O d (nadd O dmin (pDFit P))
                         then [mkNode b (S (nLine a)) c wd sums r d (brk_of a :: nAnc a)] else []
                       | None => []
                       end) [0; 1; 2; 3]%nat
  end.

(** mainLoop(b, tolerance): returns (new active list, inactive list, nextTolerance) *)
Fixpoint mloop (b : nat) (it : item num) (cur : tri) (rest : list node) (g : gacc) (inact : list node) (ntol : option num)
  : list node * list node * option num :=
  match rest with
  | [] => (flush b it cur g, inact, ntol)
  | a :: rest' =>
    let '(deact, g', ntol') := visit it cur a g ntol in
    let inact' := if deact then inact ++ [a] else inact in
    let keep := if deact then [] else [a] in
    let endgroup := match rest' with [] => true | nx :: _ => (S (nLine a) <=? nLine nx)%nat end in
    if endgroup then
      let '(outr, inactr, ntolr) := mloop b it cur rest' g_empty inact' ntol' in
      (keep ++ flush b it cur g' ++ outr, inactr, ntolr)
    else
      let '(outr, inactr, ntolr) := mloop b it cur rest' g' inact' ntol' in
      (keep ++ outr, inactr, ntolr)
  end.

Definition tol_neq (a b : option num) : bool :=
  match a, b with
  | None, None => false
  | Some x, Some y => negb (neqb O x y)
  | _, _ => true
  end.

(** is mainLoop run at b?  None = the Go code panics (items[b+1] out of range) *)
Definition runs_main (b : nat) (it : item num) : option bool :=
  match ikind it with
  | TBox => Some false
  | TGlue =>
    match b with
    | 0%nat => Some false
    | S b' =>
      if match nth_error items b' with Some p => is_box p | None => false end
      then match nth_error items (S b) with None => None | Some nx => Some (negb (is_pen nx)) end
      else Some false
    end
  | TPen => Some (nltb O (ip it) (pInf P))
  end.

Definition min_width (cur : tri) (inact : list node) : option num :=
  fold_left (fun m p => let v := nsub O (tW cur) (tW (nSums p)) in
                        match m with None => Some v | Some x => Some (nmin O x v) end) inact None.

Definition overflow_nodes (b : nat) (cur : tri) (inact : list node) : list node :=
  match min_width cur inact with
  | None => []
  | Some mw =>
    flat_map (fun p => if neqb O (nsub O (tW cur) (tW (nSums p))) mw
                       then [mkNode b (S (nLine p)) 1 (tW cur) cur (n0 O) (nadd O (nDem p) (n1000 O)) (brk_of p :: nAnc p)]
                       else []) inact
  end.

Inductive pres := PPanic | PRestart (t : option num) (ovf : bool) | PDone (act : list node) (ovf : bool).

(** for b, item := range lb.items { ... } *)
Fixpoint pass (l : list (item num)) (b : nat) (cur : tri) (act inact : list node) (ntol : option num) (ovf : bool) : pres :=
  match l with
  | [] => PDone act ovf
  | it :: l' =>
    match runs_main b it with
    | None => PPanic
    | Some doit =>
      let '(act1, inact1, ntol1) := if doit then mloop b it cur act g_empty inact ntol else (act, inact, ntol) in
      let cur' := acc_item O cur it in
      (* after a forced break the inactive list is emptied (fix: nodes from before it are no parents any more) *)
      let inact2 := if forced O P it then [] else inact1 in
      match act1 with
      | _ :: _ => pass l' (S b) cur' act1 inact2 ntol1 ovf
      | [] =>
        if tol_neq tol ntol1 then PRestart ntol1 ovf
        else pass l' (S b) cur' (overflow_nodes b cur' inact1) inact2 ntol1 true
      end
    end
  end.

End Pass.

(** ------------------------------------------------------------------------------------------------ *)
Section Linebreak.
Variable items : list (item num).
Variable width : num.
Variable looseness : Z.

(** one returned breakpoint *)
Record obrk := mkO { oPos : Z; oLine : Z; oFit : Z; oRatio : num; oWidth : num; oDem : num }.

Inductive result := Panic | OutOfFuel | Done (breaks : list obrk) (ok : bool).

(** choose the active node with fewest total demerits (first among equals) *)
Definition pick_min (act : list node) : option node :=
  fold_left (fun b a => match b with None => Some a | Some b0 => if nltb O (nDem a) (nDem b0) then Some a else b end) act None.

Definition pick_loose (act : list node) (b0 : node) : node :=
  let k := Z.of_nat (nLine b0) in
  snd (fold_left (fun (sb : Z * node) a =>
         let '(s, b) := sb in
         let delta := (Z.of_nat (nLine a) - k)%Z in
         if ((looseness <=? delta)%Z && (delta <? s)%Z) || ((s <? delta)%Z && (delta <=? looseness)%Z) then (delta, a)
         else if (delta =? s)%Z && nltb O (nDem a) (nDem b) then (s, a)
         else (s, b)) act (0%Z, b0)).

(** the chain from the root to the chosen node, the root first *)
Definition chain_of (b : node) : list brk := rev (brk_of b :: nAnc b).

Definition out_ratio (r : num) : num := if nltb O r (nm1 O) || nltb O (pTol P) r then n0 O else r.

(** breaks[b.Line+1].Width -= b.W ; ratio clamp *)
Fixpoint post (parentW : option num) (l : list brk) : list obrk :=
  match l with
  | [] => []
  | k :: l' =>
    mkO (Z.of_nat (bPos k)) (Z.of_nat (bLine k)) (Z.of_nat (bFit k)) (out_ratio (bRatio k))
        (match parentW with None => bWidth k | Some w => nsub O (bWidth k) w end) (bDem k)
    :: post (Some (bW k)) l'
  end.

Definition finish (act : list node) (ovf : bool) : result :=
  match pick_min act with
  | None => Done [mkO (Z.of_nat (length items) - 1) 0 0 (n0 O) (n0 O) (n0 O)] (negb ovf)
  | Some b0 =>
    let b := if (looseness =? 0)%Z then b0 else pick_loose act b0 in
    let bs := post None (chain_of b) in
    Done (match bs with _ :: (_ :: _) as tl => tl | _ => bs end) (negb ovf)
  end.

(** START: ... goto START *)
Fixpoint lb_loop (fuel : nat) (tol : option num) (ovf : bool) : result :=
  match fuel with
  | 0%nat => OutOfFuel
  | S f =>
    match pass items width tol items 0 (t0 O) [root] [] None ovf with
    | PPanic => Panic
    | PRestart t ovf' => lb_loop f t ovf'
    | PDone act ovf' => finish act ovf'
    end
  end.

Definition linebreak (fuel : nat) : result := lb_loop fuel (Some (pTol P)) false.

(** the number of restarts, for the evidence *)
Fixpoint restarts (fuel : nat) (tol : option num) (ovf : bool) : nat :=
  match fuel with
  | 0%nat => 0
  | S f =>
    match pass items width tol items 0 (t0 O) [root] [] None ovf with
    | PRestart t ovf' => S (restarts f t ovf')
    | _ => 0
    end
  end.

End Linebreak.
End KP.

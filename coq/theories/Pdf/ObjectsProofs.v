(** Proofs about the object-table model (C13): for EVERY operation history ending in Close the cross-reference
    table lists, for each object number, the position at which that object's header was printed; every number
    (reserved or not) is printed exactly once; Size = number of objects + 1; the page tree counts its pages. *)
From Coq Require Import ZArith List Bool Lia Permutation.
From CV Require Import Pdf.Objects.
Import ListNotations.
Open Scope Z_scope.

(* ------------------------------------------------------------------------------------------------ *)
(** * List update *)

Lemma upd_length : forall l i v, length (upd i v l) = length l.
Proof. induction l as [| h t IH]; intros [| i] v; cbn; auto. Qed.

Lemma upd_nth_same : forall l i v d, (i < length l)%nat -> nth i (upd i v l) d = v.
Proof.
  induction l as [| h t IH]; intros [| i] v d H; cbn in *; try lia; auto.
  apply IH. lia.
Qed.

Lemma upd_nth_other : forall l i j v d, i <> j -> nth j (upd i v l) d = nth j l d.
Proof.
  induction l as [| h t IH]; intros [| i] [| j] v d H; cbn; auto; try congruence.
Qed.

(* ------------------------------------------------------------------------------------------------ *)
(** * The invariant: [L] lists the numbers allocated but not yet printed *)

Record Inv (s : st) (L : list Z) : Prop := mkInv {
  inv_nodup : NoDup L;
  inv_pend : forall k, In k L -> 1 <= k <= nobj s /\ ~ In k (nums s);
  inv_done : forall k, 1 <= k <= nobj s -> ~ In k L ->
      count_occ Z.eq_dec (nums s) k = 1%nat /\
      forall p kd, In (k, p, kd) (wr s) -> nth (Z.to_nat (k - 1)) (offs s) 0 = p;
  inv_rng : forall k, In k (nums s) -> 1 <= k <= nobj s }.

Lemma Inv_ext : forall s s' L, offs s = offs s' -> wr s = wr s' -> Inv s L -> Inv s' L.
Proof.
  intros s s' L Ho Hw [H1 H2 H3 H4].
  unfold nobj, nums in *. constructor; unfold nobj, nums; rewrite <- ?Ho, <- ?Hw; auto.
Qed.

Lemma Inv_perm : forall s L L', Permutation L L' -> Inv s L -> Inv s L'.
Proof.
  intros s L L' P [H1 H2 H3 H4]. constructor; auto.
  - eapply Permutation_NoDup; eauto.
  - intros k Hk. apply H2. eapply Permutation_in; [apply Permutation_sym; exact P | exact Hk].
  - intros k Hr Hn. apply H3; auto. intro Hk. apply Hn. eapply Permutation_in; eauto.
Qed.

Lemma nobj_nonneg : forall s, 0 <= nobj s.
Proof. intros. unfold nobj. lia. Qed.

Lemma nobj_write : forall kd s, nobj (p_write kd s) = nobj s + 1.
Proof. intros. unfold nobj, p_write. cbn [offs]. rewrite app_length. cbn [length]. lia. Qed.

Lemma nums_write : forall kd s, nums (p_write kd s) = nums s ++ [nobj s + 1].
Proof. intros. unfold nums, p_write. cbn [wr]. rewrite map_app. reflexivity. Qed.

Lemma in_wr_num : forall s k p kd, In (k, p, kd) (wr s) -> In k (nums s).
Proof. intros s k p kd H. unfold nums. change k with (num (k, p, kd)). apply in_map. exact H. Qed.

Lemma count_app_single : forall l k x,
  count_occ Z.eq_dec (l ++ [x]) k = (count_occ Z.eq_dec l k + (if Z.eq_dec x k then 1 else 0))%nat.
Proof. intros. rewrite count_occ_app. cbn [count_occ]. destruct (Z.eq_dec x k); lia. Qed.

Lemma Inv_write : forall kd s L, Inv s L -> Inv (p_write kd s) L.
Proof.
  intros kd s L [H1 H2 H3 H4]. constructor.
  - exact H1.
  - intros k Hk. destruct (H2 k Hk) as [Hr Hn]. rewrite nobj_write, nums_write. split; [lia |].
    intro Hi. apply in_app_or in Hi. destruct Hi as [Hi | Hi]; [exact (Hn Hi) |].
    cbn in Hi. destruct Hi as [Hi | []]. lia.
  - intros k Hr Hn. rewrite nobj_write in Hr. rewrite nums_write, count_app_single.
    destruct (Z.eq_dec k (nobj s + 1)) as [E | E].
    + subst k. split.
      * destruct (Z.eq_dec (nobj s + 1) (nobj s + 1)) as [_ | C]; [| congruence].
        assert (Hc : count_occ Z.eq_dec (nums s) (nobj s + 1) = 0%nat).
        { apply count_occ_not_In. intro Hi. apply H4 in Hi. lia. }
        rewrite Hc. reflexivity.
      * intros p kd' Hi. unfold p_write in Hi |- *. cbn [wr offs] in *.
        apply in_app_or in Hi. destruct Hi as [Hi | Hi].
        { apply in_wr_num in Hi. apply H4 in Hi. lia. }
        cbn in Hi. destruct Hi as [Hi | []]. inversion Hi; subst.
        replace (Z.to_nat (nobj s + 1 - 1)) with (length (offs s)) by (unfold nobj; lia).
        rewrite app_nth2 by lia. rewrite Nat.sub_diag. reflexivity.
    + assert (Hr' : 1 <= k <= nobj s) by lia.
      destruct (H3 k Hr' Hn) as [Hc Ho]. split.
      * destruct (Z.eq_dec (nobj s + 1) k) as [C | _]; [congruence |]. lia.
      * intros p kd' Hi. unfold p_write in Hi |- *. cbn [wr offs] in *.
        apply in_app_or in Hi. destruct Hi as [Hi | Hi].
        { rewrite app_nth1 by (unfold nobj in Hr'; lia). eapply Ho; eauto. }
        cbn in Hi. destruct Hi as [Hi | []]. inversion Hi; subst. congruence.
  - intros k Hi. rewrite nobj_write. rewrite nums_write in Hi.
    apply in_app_or in Hi. destruct Hi as [Hi | Hi]; [apply H4 in Hi; lia |].
    cbn in Hi. destruct Hi as [Hi | []]. pose proof (nobj_nonneg s). lia.
Qed.

Lemma nobj_reserve : forall s, nobj (p_reserve s) = nobj s + 1.
Proof. intros. unfold nobj, p_reserve. cbn [offs]. rewrite app_length. cbn [length]. lia. Qed.

Lemma Inv_reserve : forall s L, Inv s L -> Inv (p_reserve s) ((nobj s + 1) :: L).
Proof.
  intros s L [H1 H2 H3 H4]. constructor.
  - constructor; [| exact H1]. intro Hi. apply H2 in Hi. lia.
  - intros k Hk. rewrite nobj_reserve. change (nums (p_reserve s)) with (nums s).
    destruct Hk as [Hk | Hk].
    + subst k. split; [unfold nobj; lia |]. intro Hi. apply H4 in Hi. lia.
    + destruct (H2 k Hk). split; [lia | assumption].
  - intros k Hr Hn. rewrite nobj_reserve in Hr. change (nums (p_reserve s)) with (nums s).
    assert (Hk : k <> nobj s + 1) by (intro E; apply Hn; left; auto).
    assert (Hn' : ~ In k L) by (intro Hi; apply Hn; right; auto).
    assert (Hr' : 1 <= k <= nobj s) by lia.
    destruct (H3 k Hr' Hn') as [Hc Ho]. split; [exact Hc |].
    intros p kd Hi. unfold p_reserve. cbn [offs]. rewrite app_nth1 by (unfold nobj in Hr'; lia).
    eapply Ho. exact Hi.
  - intros k Hi. rewrite nobj_reserve. change (nums (p_reserve s)) with (nums s) in Hi. apply H4 in Hi. lia.
Qed.

Lemma nobj_fill : forall n kd s, nobj (p_fill n kd s) = nobj s.
Proof. intros. unfold nobj, p_fill. cbn [offs]. rewrite upd_length. reflexivity. Qed.

Lemma nums_fill : forall n kd s, nums (p_fill n kd s) = nums s ++ [n].
Proof. intros. unfold nums, p_fill. cbn [wr]. rewrite map_app. reflexivity. Qed.

Lemma Inv_fill : forall n kd s L, Inv s (n :: L) -> Inv (p_fill n kd s) L.
Proof.
  intros n kd s L [H1 H2 H3 H4].
  assert (Hn : 1 <= n <= nobj s /\ ~ In n (nums s)) by (apply H2; left; reflexivity).
  destruct Hn as [Hnr Hnn].
  assert (HnL : ~ In n L) by (inversion H1; assumption).
  constructor.
  - inversion H1; assumption.
  - intros k Hk. rewrite nobj_fill, nums_fill.
    assert (Hk' : In k (n :: L)) by (right; exact Hk).
    destruct (H2 k Hk') as [Hr Hnk]. split; [exact Hr |].
    intro Hi. apply in_app_or in Hi. destruct Hi as [Hi | Hi]; [exact (Hnk Hi) |].
    cbn in Hi. destruct Hi as [Hi | []]. subst k. exact (HnL Hk).
  - intros k Hr HkL. rewrite nobj_fill in Hr. rewrite nums_fill, count_app_single.
    destruct (Z.eq_dec k n) as [E | E].
    + subst k. split.
      * destruct (Z.eq_dec n n) as [_ | C]; [| congruence].
        rewrite (proj1 (count_occ_not_In Z.eq_dec (nums s) n) Hnn). reflexivity.
      * intros p kd' Hi. unfold p_fill in Hi |- *. cbn [wr offs] in *.
        apply in_app_or in Hi. destruct Hi as [Hi | Hi].
        { apply in_wr_num in Hi. contradiction. }
        cbn in Hi. destruct Hi as [Hi | []]. inversion Hi; subst.
        apply upd_nth_same. unfold nobj in Hnr. lia.
    + assert (HkL' : ~ In k (n :: L)) by (intros [C | C]; [congruence | exact (HkL C)]).
      destruct (H3 k Hr HkL') as [Hc Ho]. split.
      * destruct (Z.eq_dec n k) as [C | _]; [congruence |]. lia.
      * intros p kd' Hi. unfold p_fill in Hi |- *. cbn [wr offs] in *.
        apply in_app_or in Hi. destruct Hi as [Hi | Hi].
        { rewrite upd_nth_other by lia. eapply Ho; eauto. }
        cbn in Hi. destruct Hi as [Hi | []]. inversion Hi; subst. congruence.
  - intros k Hi. rewrite nobj_fill. rewrite nums_fill in Hi.
    apply in_app_or in Hi. destruct Hi as [Hi | Hi]; [apply H4; exact Hi |].
    cbn in Hi. destruct Hi as [Hi | []]. subst k. exact Hnr.
Qed.

(* ------------------------------------------------------------------------------------------------ *)
(** * Operations preserve the invariant *)

Definition pend (s : st) : list Z := map fst (resH s) ++ map fst (resV s) ++ [1; 2; 3].

Lemma Inv_write_page : forall s L, Inv s L -> Inv (write_page s) L.
Proof.
  intros s L H. unfold write_page.
  eapply Inv_ext; [| | apply (Inv_write KPage), (Inv_write KContent); exact H]; reflexivity.
Qed.

Lemma pend_write : forall kd s, pend (p_write kd s) = pend s.
Proof. reflexivity. Qed.

Lemma pend_write_page : forall s, pend (write_page s) = pend s.
Proof. reflexivity. Qed.

Lemma Inv_step : forall s o, Inv s (pend s) -> Inv (step s o) (pend (step s o)).
Proof.
  intros s o H. destruct o as [| | m | | v f]; cbn [step].
  - apply Inv_write. exact H.
  - destruct (havePage s).
    + eapply Inv_ext with (s := write_page s); [reflexivity | reflexivity |].
      change (pend (set_page (write_page s))) with (pend s). apply Inv_write_page. exact H.
    + eapply Inv_ext with (s := s); [reflexivity | reflexivity | exact H].
  - destruct m.
    + apply (Inv_write KObj), (Inv_write KObj). exact H.
    + apply Inv_write. exact H.
  - apply Inv_write. exact H.
  - cbv zeta. rewrite nobj_reserve.
    apply Inv_reserve in H.
    destruct v; unfold add_res.
    + eapply Inv_ext with (s := p_reserve s); [reflexivity | reflexivity |].
      unfold pend. cbn [resH resV p_reserve]. rewrite map_app. cbn [map fst].
      eapply Inv_perm; [| exact H]. unfold pend.
      rewrite <- !app_assoc. cbn [app].
      etransitivity; [apply Permutation_middle |]. apply Permutation_app_head. apply Permutation_middle.
    + eapply Inv_ext with (s := p_reserve s); [reflexivity | reflexivity |].
      unfold pend. cbn [resH resV p_reserve]. rewrite map_app. cbn [map fst].
      eapply Inv_perm; [| exact H]. unfold pend.
      rewrite <- !app_assoc. cbn [app].
      apply Permutation_middle.
Qed.

Lemma Inv_init : forall hl ls, Inv (init hl ls) (pend (init hl ls)).
Proof.
  intros hl ls. unfold pend, init. cbn [resH resV map app]. constructor.
  - repeat constructor; cbn; intuition lia.
  - intros k Hk. cbn in Hk. unfold nobj, nums. cbn. split; [lia | tauto].
  - intros k Hr Hn. unfold nobj in Hr. cbn in Hr. exfalso. apply Hn. cbn. lia.
  - intros k Hi. cbn in Hi. contradiction.
Qed.

Lemma Inv_run : forall ops s, Inv s (pend s) -> Inv (fold_left step ops s) (pend (fold_left step ops s)).
Proof.
  induction ops as [| o t IH]; intros s H; cbn [fold_left]; [exact H |].
  apply IH, Inv_step, H.
Qed.

Lemma Inv_write_font : forall subset s r L, Inv s (fst r :: L) -> Inv (write_font subset s r) L.
Proof.
  intros subset s r L H. unfold write_font. apply Inv_fill.
  destruct subset; destruct (snd r); repeat apply Inv_write; exact H.
Qed.

Lemma Inv_fonts : forall subset l s L, Inv s (map fst l ++ L) -> Inv (fold_left (write_font subset) l s) L.
Proof.
  induction l as [| r t IH]; intros s L H; cbn [fold_left]; [exact H |].
  apply IH. apply Inv_write_font. exact H.
Qed.

Lemma Inv_close : forall subset s, Inv s (pend s) -> Inv (close_st subset s) [].
Proof.
  intros subset s H. unfold close_st.
  set (s0 := if havePage s then write_page s else s).
  assert (H0 : Inv s0 (pend s0)).
  { unfold s0. destruct (havePage s); [rewrite pend_write_page; apply Inv_write_page |]; exact H. }
  cbv zeta.
  apply Inv_fill, Inv_fill, Inv_fill.
  apply Inv_fonts with (L := [1; 2; 3]).
  apply Inv_fonts. exact H0.
Qed.

(* ------------------------------------------------------------------------------------------------ *)
(** * xref_consistent *)

Theorem xref_consistent : forall hl ls ops subset,
  let c := run_doc hl ls ops subset in
  cSize c = Z.of_nat (length (cTable c)) + 1 /\
  (forall k, 1 <= k <= Z.of_nat (length (cTable c)) ->
     count_occ Z.eq_dec (map num (cWr c)) k = 1%nat /\
     forall p kd, In (k, p, kd) (cWr c) -> nth (Z.to_nat (k - 1)) (cTable c) 0 = p) /\
  (forall e, In e (cWr c) -> 1 <= num e <= Z.of_nat (length (cTable c))).
Proof.
  intros hl ls ops subset c.
  assert (H : Inv (close_st subset (run hl ls ops)) []).
  { apply Inv_close. unfold run. apply Inv_run. apply Inv_init. }
  destruct H as [H1 H2 H3 H4].
  unfold c, run_doc, close. cbn [cSize cTable cWr]. split; [reflexivity |]. split.
  - intros k Hr. apply H3; [exact Hr | intros []].
  - intros e He. apply H4. unfold nums. apply in_map. exact He.
Qed.

(* ------------------------------------------------------------------------------------------------ *)
(** * pages_count *)

Definition PInv (s : st) (n : nat) : Prop :=
  pages s = map num (filter is_page_ev (wr s)) /\
  (length (pages s) + (if havePage s then 1 else 0))%nat = n.

Lemma filter_snoc_not : forall (l : list (Z * Z * kind)) e, is_page_ev e = false ->
  filter is_page_ev (l ++ [e]) = filter is_page_ev l.
Proof. intros l e H. rewrite filter_app. cbn [filter]. rewrite H. apply app_nil_r. Qed.

Lemma PInv_write : forall kd s n, kind_eqb kd KPage = false -> PInv s n -> PInv (p_write kd s) n.
Proof.
  intros kd s n Hk [H1 H2]. unfold PInv, p_write. cbn [pages wr havePage].
  rewrite filter_snoc_not by exact Hk. auto.
Qed.

Lemma PInv_fill : forall k kd s n, kind_eqb kd KPage = false -> PInv s n -> PInv (p_fill k kd s) n.
Proof.
  intros k kd s n Hk [H1 H2]. unfold PInv, p_fill. cbn [pages wr havePage].
  rewrite filter_snoc_not by exact Hk. auto.
Qed.

Lemma write_page_pages : forall s,
  pages s = map num (filter is_page_ev (wr s)) ->
  pages (write_page s) = map num (filter is_page_ev (wr (write_page s))) /\
  length (pages (write_page s)) = S (length (pages s)) /\
  havePage (write_page s) = havePage s.
Proof.
  intros s H. unfold write_page. cbn [pages wr havePage p_write].
  rewrite filter_app. cbn [filter]. replace (is_page_ev (nobj (p_write KContent s) + 1, pos (p_write KContent s), KPage)) with true by reflexivity.
  rewrite filter_snoc_not by reflexivity.
  rewrite map_app. cbn [map num fst]. rewrite <- H.
  split; [| split; [rewrite app_length; cbn; lia | reflexivity]].
  f_equal. f_equal. rewrite nobj_write. reflexivity.
Qed.

Lemma PInv_step : forall s o n, PInv s n -> PInv (step s o) (n + (if is_newpage o then 1 else 0))%nat.
Proof.
  intros s o n H. destruct o as [| | m | | v f]; cbn [step is_newpage]; rewrite ?Nat.add_0_r.
  - apply PInv_write; auto.
  - destruct H as [H1 H2]. destruct (havePage s) eqn:E.
    + destruct (write_page_pages s H1) as [A [B C]].
      unfold PInv, set_page. cbn [pages wr havePage]. split; [exact A | lia].
    + unfold PInv, set_page. cbn [pages wr havePage]. split; [exact H1 | lia].
  - destruct m; repeat apply PInv_write; auto.
  - apply PInv_write; auto.
  - cbv zeta. destruct H as [H1 H2]. destruct v; unfold PInv, add_res, p_reserve; cbn [pages wr havePage]; auto.
Qed.

Lemma PInv_run : forall ops s n, PInv s n ->
  PInv (fold_left step ops s) (n + length (filter is_newpage ops))%nat.
Proof.
  induction ops as [| o t IH]; intros s n H; cbn [fold_left filter length].
  - rewrite Nat.add_0_r. exact H.
  - apply (PInv_step s o) in H. apply IH in H.
    destruct (is_newpage o); cbn [length] in *; [replace (n + S (length (filter is_newpage t)))%nat with (n + 1 + length (filter is_newpage t))%nat by lia | rewrite Nat.add_0_r in H]; exact H.
Qed.

Lemma PInv_fonts : forall subset l s n, PInv s n -> PInv (fold_left (write_font subset) l s) n.
Proof.
  induction l as [| r t IH]; intros s n H; cbn [fold_left]; [exact H |].
  apply IH. unfold write_font. apply PInv_fill; [reflexivity |].
  destruct subset; destruct (snd r); repeat (apply PInv_write; [reflexivity |]); exact H.
Qed.

(** /Count = |Kids|; Kids are exactly the page objects printed, in printing order; their number is the number
    of NewPage calls (every page that was started is written, by the next NewPage or by Close) *)
Theorem pages_count : forall hl ls ops subset,
  let c := run_doc hl ls ops subset in
  cCount c = Z.of_nat (length (cKids c)) /\
  cKids c = map num (filter is_page_ev (cWr c)) /\
  length (cKids c) = length (filter is_newpage ops).
Proof.
  intros hl ls ops subset c.
  assert (H : PInv (run hl ls ops) (0 + length (filter is_newpage ops))%nat).
  { unfold run. apply PInv_run. split; reflexivity. }
  cbn [plus] in H.
  set (s := run hl ls ops) in *.
  assert (H0 : (exists n, PInv (if havePage s then write_page s else s) n) /\
               length (pages (if havePage s then write_page s else s)) = length (filter is_newpage ops)).
  { destruct H as [H1 H2]. destruct (havePage s) eqn:E.
    - destruct (write_page_pages s H1) as [A [B C]]. split; [| lia].
      eexists. split; [exact A | reflexivity].
    - split; [| lia]. eexists. split; [exact H1 | reflexivity]. }
  destruct H0 as [[n0 H0] Hlen].
  assert (HF : PInv (close_st subset s) n0).
  { unfold close_st. cbv zeta. repeat (apply PInv_fill; [reflexivity |]). repeat apply PInv_fonts. exact H0. }
  assert (Hpages : pages (close_st subset s) = pages (if havePage s then write_page s else s)).
  { unfold close_st. cbv zeta. unfold p_fill at 1 2 3. cbn [pages].
    assert (G : forall l st0, pages (fold_left (write_font subset) l st0) = pages st0).
    { induction l as [| r t IH]; intros st0; cbn [fold_left]; [reflexivity |]. rewrite IH.
      unfold write_font, p_fill. cbn [pages]. destruct subset; destruct (snd r); reflexivity. }
    rewrite !G. reflexivity. }
  unfold c, run_doc, close. cbn [cCount cKids cWr]. fold s.
  split; [reflexivity |]. split; [exact (proj1 HF) |].
  rewrite Hpages. exact Hlen.
Qed.

(** Bernstein evaluation of line / quadratic / cubic Béziers over Q, de Casteljau split, hull lemma,
    affine invariance.  (path_util.go: quadraticBezierPos, cubicBezierPos, *Split use the same polynomials;
    the monomial forms of the Go code are proved equal to the Bernstein forms below by [ring].) *)
From Coq Require Import QArith Qfield Lqa List.
From CV Require Import Geom.Matrix Geom.MatrixProofs.
Import ListNotations.
Open Scope Q_scope.

(** scalar (per coordinate) evaluators *)
Definition blin (a b t : Q) : Q := (1 - t) * a + t * b.
Definition bquad (a b c t : Q) : Q := (1 - t) * (1 - t) * a + 2 * (1 - t) * t * b + t * t * c.
Definition bcube (a b c d t : Q) : Q :=
  (1 - t) * (1 - t) * (1 - t) * a + 3 * (1 - t) * (1 - t) * t * b + 3 * (1 - t) * t * t * c + t * t * t * d.

(** the Go code's monomial forms *)
Definition go_quad_pos (a b c t : Q) : Q := a * (1 - 2 * t + t * t) + b * (2 * t - 2 * t * t) + c * (t * t).
Definition go_cube_pos (a b c d t : Q) : Q :=
  a * (1 - 3 * t + 3 * t * t - t * t * t) + b * (3 * t - 6 * t * t + 3 * t * t * t) + c * (3 * t * t - 3 * t * t * t) + d * (t * t * t).
Lemma go_quad_pos_eq a b c t : go_quad_pos a b c t == bquad a b c t.
Proof. unfold go_quad_pos, bquad. ring. Qed.
Lemma go_cube_pos_eq a b c d t : go_cube_pos a b c d t == bcube a b c d t.
Proof. unfold go_cube_pos, bcube. ring. Qed.

(** de Casteljau: evaluation by repeated interpolation *)
Lemma bquad_casteljau a b c t : bquad a b c t == blin (blin a b t) (blin b c t) t.
Proof. unfold bquad, blin. ring. Qed.
Lemma bcube_casteljau a b c d t : bcube a b c d t == blin (bquad a b c t) (bquad b c d t) t.
Proof. unfold bcube, bquad, blin. ring. Qed.

(** end points *)
Lemma bquad_0 a b c : bquad a b c 0 == a. Proof. unfold bquad. ring. Qed.
Lemma bquad_1 a b c : bquad a b c 1 == c. Proof. unfold bquad. ring. Qed.
Lemma bcube_0 a b c d : bcube a b c d 0 == a. Proof. unfold bcube. ring. Qed.
Lemma bcube_1 a b c d : bcube a b c d 1 == d. Proof. unfold bcube. ring. Qed.

(** de Casteljau split at parameter s (quadraticBezierSplit / cubicBezierSplit): control values of the halves *)
Definition qsplit_l (a b c s : Q) : Q * Q * Q := (a, blin a b s, bquad a b c s).
Definition qsplit_r (a b c s : Q) : Q * Q * Q := (bquad a b c s, blin b c s, c).
Definition csplit_l (a b c d s : Q) : Q * Q * Q * Q := (a, blin a b s, bquad a b c s, bcube a b c d s).
Definition csplit_r (a b c d s : Q) : Q * Q * Q * Q := (bcube a b c d s, bquad b c d s, blin c d s, d).

Lemma qsplit_l_eval a b c s t :
  let '(a', b', c') := qsplit_l a b c s in bquad a' b' c' t == bquad a b c (s * t).
Proof. unfold qsplit_l, bquad, blin. ring. Qed.
Lemma qsplit_r_eval a b c s t :
  let '(a', b', c') := qsplit_r a b c s in bquad a' b' c' t == bquad a b c (s + (1 - s) * t).
Proof. unfold qsplit_r, bquad, blin. ring. Qed.
Lemma csplit_l_eval a b c d s t :
  let '(a', b', c', d') := csplit_l a b c d s in bcube a' b' c' d' t == bcube a b c d (s * t).
Proof. unfold csplit_l, bcube, bquad, blin. ring. Qed.
Lemma csplit_r_eval a b c d s t :
  let '(a', b', c', d') := csplit_r a b c d s in bcube a' b' c' d' t == bcube a b c d (s + (1 - s) * t).
Proof. unfold csplit_r, bcube, bquad, blin. ring. Qed.

(** hull lemma: on [0,1] the value is a convex combination of the control values *)
Lemma conv2_lo w0 w1 a b lo : 0 <= w0 -> 0 <= w1 -> w0 + w1 == 1 -> lo <= a -> lo <= b -> lo <= w0 * a + w1 * b.
Proof.
  intros H0 H1 HS Ha Hb.
  assert (E : w0 * a + w1 * b - lo == w0 * (a - lo) + w1 * (b - lo)).
  { transitivity (w0 * a + w1 * b - (w0 + w1) * lo); [rewrite HS; ring|ring]. }
  assert (P0 : 0 <= w0 * (a - lo)) by (apply Qmult_le_0_compat; lra).
  assert (P1 : 0 <= w1 * (b - lo)) by (apply Qmult_le_0_compat; lra).
  lra.
Qed.
Lemma conv2_hi w0 w1 a b hi : 0 <= w0 -> 0 <= w1 -> w0 + w1 == 1 -> a <= hi -> b <= hi -> w0 * a + w1 * b <= hi.
Proof.
  intros H0 H1 HS Ha Hb.
  assert (E : hi - (w0 * a + w1 * b) == w0 * (hi - a) + w1 * (hi - b)).
  { transitivity ((w0 + w1) * hi - (w0 * a + w1 * b)); [rewrite HS; ring|ring]. }
  assert (P0 : 0 <= w0 * (hi - a)) by (apply Qmult_le_0_compat; lra).
  assert (P1 : 0 <= w1 * (hi - b)) by (apply Qmult_le_0_compat; lra).
  lra.
Qed.

Lemma hull_lin a b t lo hi : 0 <= t <= 1 -> lo <= a <= hi -> lo <= b <= hi -> lo <= blin a b t <= hi.
Proof.
  intros Ht Ha Hb. unfold blin. split.
  - apply conv2_lo; lra.
  - apply conv2_hi; lra.
Qed.

Lemma hull_quad a b c t lo hi :
  0 <= t <= 1 -> lo <= a <= hi -> lo <= b <= hi -> lo <= c <= hi -> lo <= bquad a b c t <= hi.
Proof.
  intros Ht Ha Hb Hc. rewrite bquad_casteljau.
  apply hull_lin; [exact Ht| |]; apply hull_lin; assumption.
Qed.

Lemma hull_cube a b c d t lo hi :
  0 <= t <= 1 -> lo <= a <= hi -> lo <= b <= hi -> lo <= c <= hi -> lo <= d <= hi -> lo <= bcube a b c d t <= hi.
Proof.
  intros Ht Ha Hb Hc Hd. rewrite bcube_casteljau.
  apply hull_lin; [exact Ht| |]; apply hull_quad; assumption.
Qed.

Example hull_cube_ex : 0 <= bcube 0 1 2 10 (1#2) <= 10.
Proof. apply hull_cube; lra. Qed.

(** points *)
Definition Blin (p0 p1 : qpt) (t : Q) : qpt := (blin (fst p0) (fst p1) t, blin (snd p0) (snd p1) t).
Definition Bquad (p0 p1 p2 : qpt) (t : Q) : qpt :=
  (bquad (fst p0) (fst p1) (fst p2) t, bquad (snd p0) (snd p1) (snd p2) t).
Definition Bcube (p0 p1 p2 p3 : qpt) (t : Q) : qpt :=
  (bcube (fst p0) (fst p1) (fst p2) (fst p3) t, bcube (snd p0) (snd p1) (snd p2) (snd p3) t).

(** B ctrl t for a control polygon of 2, 3 or 4 points (the segment kinds of a path); None otherwise *)
Definition bez (ctrl : list qpt) (t : Q) : option qpt :=
  match ctrl with
  | [p0; p1] => Some (Blin p0 p1 t)
  | [p0; p1; p2] => Some (Bquad p0 p1 p2 t)
  | [p0; p1; p2; p3] => Some (Bcube p0 p1 p2 p3 t)
  | _ => None
  end.

Definition opteq (a b : option qpt) : Prop :=
  match a, b with Some p, Some q => pteq p q | None, None => True | _, _ => False end.

(** affine invariance, for ALL t (not only [0,1]): the Bernstein weights sum to 1 *)
Lemma blin_affine m p0 p1 t : pteq (Blin (mdot m p0) (mdot m p1) t) (mdot m (Blin p0 p1 t)).
Proof. unfold Blin, blin, pteq, mdot; cbn [fst snd]. split; ring. Qed.
Lemma bquad_affine m p0 p1 p2 t : pteq (Bquad (mdot m p0) (mdot m p1) (mdot m p2) t) (mdot m (Bquad p0 p1 p2 t)).
Proof. unfold Bquad, bquad, pteq, mdot; cbn [fst snd]. split; ring. Qed.
Lemma bcube_affine m p0 p1 p2 p3 t :
  pteq (Bcube (mdot m p0) (mdot m p1) (mdot m p2) (mdot m p3) t) (mdot m (Bcube p0 p1 p2 p3 t)).
Proof. unfold Bcube, bcube, pteq, mdot; cbn [fst snd]. split; ring. Qed.

Theorem bezier_affine m ctrl t : opteq (bez (map (mdot m) ctrl) t) (option_map (mdot m) (bez ctrl t)).
Proof.
  destruct ctrl as [|p0 [|p1 [|p2 [|p3 [|p4 r]]]]]; cbn [map bez option_map opteq]; auto.
  - apply blin_affine.
  - apply bquad_affine.
  - apply bcube_affine.
Qed.

(** direction is preserved: the transformed segment at parameter t is the image of the original at the
    same t, in particular t=0 / t=1 map start to start and end to end *)
Lemma Bquad_0 p0 p1 p2 : pteq (Bquad p0 p1 p2 0) p0.
Proof. unfold Bquad, pteq; cbn [fst snd]. split; apply bquad_0. Qed.
Lemma Bquad_1 p0 p1 p2 : pteq (Bquad p0 p1 p2 1) p2.
Proof. unfold Bquad, pteq; cbn [fst snd]. split; apply bquad_1. Qed.
Lemma Bcube_0 p0 p1 p2 p3 : pteq (Bcube p0 p1 p2 p3 0) p0.
Proof. unfold Bcube, pteq; cbn [fst snd]. split; apply bcube_0. Qed.
Lemma Bcube_1 p0 p1 p2 p3 : pteq (Bcube p0 p1 p2 p3 1) p3.
Proof. unfold Bcube, pteq; cbn [fst snd]. split; apply bcube_1. Qed.

(** robustness of evaluation w.r.t. a perturbation of the control points (used to justify the slack of the
    K2 checker: if every control value is within eps of m.ctrl, every point of the segment is within eps) *)
Lemma bquad_perturb a b c a' b' c' t eps :
  0 <= t <= 1 -> -eps <= a' - a <= eps -> -eps <= b' - b <= eps -> -eps <= c' - c <= eps ->
  -eps <= bquad a' b' c' t - bquad a b c t <= eps.
Proof.
  intros Ht Ha Hb Hc.
  assert (E : bquad a' b' c' t - bquad a b c t == bquad (a' - a) (b' - b) (c' - c) t) by (unfold bquad; ring).
  rewrite E. apply hull_quad; assumption.
Qed.
Lemma bcube_perturb a b c d a' b' c' d' t eps :
  0 <= t <= 1 -> -eps <= a' - a <= eps -> -eps <= b' - b <= eps -> -eps <= c' - c <= eps -> -eps <= d' - d <= eps ->
  -eps <= bcube a' b' c' d' t - bcube a b c d t <= eps.
Proof.
  intros Ht Ha Hb Hc Hd.
  assert (E : bcube a' b' c' d' t - bcube a b c d t == bcube (a' - a) (b' - b) (c' - c) (d' - d) t) by (unfold bcube; ring).
  rewrite E. apply hull_cube; assumption.
Qed.

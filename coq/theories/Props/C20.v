(** C20 — Concurrent use on independent objects is race-free and deterministic (logical half).
    Gen.ConcGen is regenerated from the Go source on every run. Property theorems only. *)
From Coq Require Import String List Bool ZArith.
From CV Require Import Conc.Pools Conc.PoolsProofs Gen.ConcGen.
Import ListNotations.

(** Every pool acquisition site of the CURRENT source assigns every field of the pooled type before the
    object is first read (a finite table, regenerated from the source; closed by computation). *)
Theorem C20_all_sites_cover : forallb (covers pool_types) pool_sites = true.
Proof. exact (eq_refl true). Qed.
Print Assumptions C20_all_sites_cover.

(** Hence, at every acquisition site of the current source, the acquired object is independent of the stale
    contents of the recycled object: results cannot depend on which earlier calls populated the pools. *)
Theorem C20_pools_carry_no_state : forall s, In s pool_sites ->
  forall fs, fields_of pool_types (site_type s) = Some fs ->
  forall (stale1 stale2 fresh : obj) f, In f fs ->
  acquire s stale1 fresh f = acquire s stale2 fresh f.
Proof. exact (table_ignores_stale pool_types pool_sites C20_all_sites_cover). Qed.
Print Assumptions C20_pools_carry_no_state.

(** Every write to a package-level variable inside a function body of the current source is inside a
    sync.Once function literal or between Lock/Unlock of a mutex. *)
Theorem C20_globals_guarded : forallb guarded global_writes = true.
Proof. exact (eq_refl true). Qed.
Print Assumptions C20_globals_guarded.

(** the tables are not empty (the theorems are about something) *)
Theorem C20_tables_nonempty :
  Nat.leb 1 (length pool_sites) = true /\ Nat.leb 1 (length global_writes) = true.
Proof. exact (conj (eq_refl true) (eq_refl true)). Qed.
Print Assumptions C20_tables_nonempty.

(** Over histories: any sequence of acquisitions at sites of the current source observes the same field
    contents whatever the pools held at the start and whichever recycled object the pool hands out at each
    step (sync.Pool's choice is arbitrary; two arbitrary policies and two arbitrary initial pools). *)
Theorem C20_histories_ignore_pools : forall h, (forall a, In a h -> In (fst a) pool_sites) ->
  forall (pick1 pick2 : policy) (p1 p2 : pool), prun pool_types pick1 p1 h = prun pool_types pick2 p2 h.
Proof. exact (history_ignores_pool pool_types pool_sites C20_all_sites_cover). Qed.
Print Assumptions C20_histories_ignore_pools.

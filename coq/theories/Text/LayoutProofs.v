(** C16 — proofs about the layout models of Text/Layout.v. *)
From Coq Require Import ZArith QArith List Bool Lia.
From CV Require Import Base.Dy Text.KPSpec Text.KPQ Text.Layout.
Import ListNotations.

(** ==================================================================================================
    items_size_partition: GlyphsToItems counts every glyph in exactly one item. Any number structure. *)
Section Partition.
Context {num : Type} (O : ops num).
Variable french : bool.

Notation total_size := (@total_size num).

Lemma total_size_app (a b : list (litem num)) : total_size (a ++ b) = (total_size a + total_size b)%nat.
Proof. induction a as [|x a IH]; simpl; [reflexivity|]. unfold Layout.total_size in *. simpl. rewrite IH. lia. Qed.

Lemma total_size_rev (l : list (litem num)) : total_size (rev l) = total_size l.
Proof.
  induction l as [|x l IH]; [reflexivity|]. simpl rev. rewrite total_size_app, IH.
  unfold Layout.total_size. simpl. lia.
Qed.

Lemma total_size_cons (x : litem num) (l : list (litem num)) : total_size (x :: l) = (lsize x + total_size l)%nat.
Proof. reflexivity. Qed.

Lemma bump_size (r : list (litem num)) : r <> [] -> total_size (bump r) = S (total_size r) /\ bump r <> [].
Proof. destruct r as [|it t]; [congruence|]. intros _. split; [reflexivity | discriminate]. Qed.

(** the glyph that Centered drops: a soft hyphen or zero-width space *)
Definition disc (r : Z) : bool := (r =? shy)%Z || (r =? zwsp)%Z.
Definition centered_disc (gl : list (glyph num)) (align : Z) : bool :=
  (align =? 2)%Z && existsb (fun g => disc (gRune g)) gl.

Lemma disc_at gl align i : centered_disc gl align = false -> (align =? 2)%Z && disc (gRune (gat O gl i)) = false.
Proof.
  unfold centered_disc. destruct (align =? 2)%Z; [|reflexivity]. cbn [andb]. intro H.
  unfold gat. destruct (nth_in_or_default (Z.to_nat i) gl (mkGlyph 0 (z0 O) false false (z0 O))) as [Hin|Hd].
  - destruct (disc (gRune (nth (Z.to_nat i) gl (mkGlyph 0 (z0 O) false false (z0 O))))) eqn:E; [|reflexivity].
    assert (existsb (fun g => disc (gRune g)) gl = true) by (apply existsb_exists; eauto). congruence.
  - rewrite Hd. reflexivity.
Qed.

Ltac szs := repeat rewrite total_size_cons; cbn [lsize lbox lglue lpen]; try lia.

Lemma step_size gl align st r i :
  (0 <= align <= 3)%Z -> r <> [] -> (align =? 2)%Z && disc (gRune (gat O gl i)) = false ->
  total_size (g2i_step O french gl align st r i) = S (total_size r) /\ g2i_step O french gl align st r i <> [].
Proof.
  intros Hal Hr Hd. unfold g2i_step.
  set (g := gat O gl i) in *. set (ru := gRune g) in *.
  match goal with |- context [if (ru =? hyphen)%Z then ?p :: ?r1 else _] => set (R1 := r1) end.
  assert (H1 : total_size R1 = S (total_size r) /\ R1 <> []).
  { unfold R1. clear R1.
    destruct (is_space ru).
    - (* space *)
      destruct (if (align =? 3)%Z then _ else _) as [[w y] z].
      match goal with |- context [bump ?x] => set (R' := match r with [] => _ | _ => _ end) in * end.
      assert (HR' : total_size R' = total_size r /\ R' <> []).
      { unfold R'. destruct r as [|it t]; [congruence|].
        destruct (match lk it with TGlue => true | _ => false end); split; try discriminate; szs. }
      destruct HR' as [E1 E2].
      destruct (align =? 3)%Z.
      + destruct (bump_size R' E2) as [A B]. rewrite A, E1. auto.
      + destruct ((align =? 0)%Z || (align =? 1)%Z).
        * split; [|discriminate]. cbn [bump]. szs.
        * split; [|discriminate]. cbn [bump]. szs.
    - destruct (is_newline ru).
      + match goal with |- context [bump ?x] => set (R' := x) end.
        assert (HR' : total_size R' = total_size r /\ R' <> []).
        { unfold R'. destruct (negb (ru =? 10)%Z || (i =? 0)%Z || negb (gRune (gat O gl (i - 1)) =? 13)%Z); split; auto; try discriminate; szs. }
        destruct HR' as [E1 E2]. destruct (bump_size R' E2) as [A B]. rewrite A, E1. auto.
      + fold (disc ru). destruct (disc ru) eqn:Ed.
        * destruct (align =? 3)%Z eqn:E3.
          -- split; [|discriminate]. cbn [bump]. szs.
          -- destruct ((align =? 0)%Z || (align =? 1)%Z) eqn:E01.
             ++ split; [|discriminate]. cbn [bump]. szs.
             ++ exfalso. (* Centered: excluded by the hypothesis *)
                apply Z.eqb_neq in E3. apply orb_false_iff in E01. destruct E01 as [E0 E1].
                apply Z.eqb_neq in E0. apply Z.eqb_neq in E1.
                assert (Ha : align = 2%Z) by lia. rewrite Ha in Hd. discriminate Hd.
        * destruct r as [|it t]; [congruence|].
          destruct t as [|it2 t2].
          -- split; [|discriminate]. cbn [bump]. szs.
          -- destruct (match lk it with TBox => true | _ => false end).
             ++ destruct (gSpaceless g || gSpaceless (gat O gl (i - 1))); split; try discriminate; cbn [bump]; szs.
             ++ split; [|discriminate]. cbn [bump]. szs. }
  destruct H1 as [A B]. destruct (ru =? hyphen)%Z; [split; [rewrite total_size_cons; cbn [lsize lpen]; lia | discriminate] | auto].
Qed.

Lemma fold_steps gl align st : forall idx r,
  (0 <= align <= 3)%Z -> r <> [] -> centered_disc gl align = false ->
  total_size (fold_left (g2i_step O french gl align st) idx r) = (length idx + total_size r)%nat /\
  fold_left (g2i_step O french gl align st) idx r <> [].
Proof.
  induction idx as [|i idx IH]; intros r Hal Hr Hc; [split; [reflexivity | exact Hr]|].
  cbn [fold_left]. destruct (step_size gl align st r i Hal Hr (disc_at gl align i Hc)) as [A B].
  destruct (IH _ Hal B Hc) as [C D]. split; [rewrite C, A; simpl; lia | exact D].
Qed.

Lemma lead_spaces_le (l : list (glyph num)) : (lead_spaces l <= length l)%nat.
Proof. induction l as [|g t IH]; simpl; [lia|]. destruct (is_space (gRune g)); lia. Qed.

(** F. For every glyph list, indent, FrenchSpacing setting and alignment (0 Left, 1 Right, 2 Centered, 3 Justified) —
    except Centered with soft hyphens / zero-width spaces — the Sizes of the items add up to the number of glyphs. *)
Theorem items_size_partition gl indent align :
  (0 <= align <= 3)%Z -> centered_disc gl align = false ->
  total_size (glyphs_to_items O french gl indent align) = length gl.
Proof.
  intros Hal Hc. destruct gl as [|g0 t] eqn:Egl; [reflexivity|].
  unfold glyphs_to_items. rewrite <- Egl in *. clear Egl g0 t.
  set (first := lead_spaces gl).
  set (nend := lead_spaces (rev (skipn first gl))).
  set (st := if (align =? 3)%Z then _ else _).
  rewrite total_size_rev. rewrite !total_size_cons. cbn [lsize lpen lglue].
  set (r0 := match first with 0%nat => _ | _ => _ end).
  set (r1 := if (align =? 2)%Z then _ else r0).
  assert (H0 : total_size r0 = first /\ r0 <> []).
  { unfold r0. destruct first; split; try discriminate; rewrite ?total_size_cons; cbn [lsize lpen lbox]; reflexivity || (unfold Layout.total_size; simpl; lia). }
  assert (H1 : total_size r1 = first /\ r1 <> []).
  { unfold r1. destruct (align =? 2)%Z; [split; [rewrite total_size_cons; cbn [lsize lglue]; tauto | discriminate] | exact H0]. }
  destruct H1 as [A B].
  destruct (fold_steps gl align st (map Z.of_nat (seq first (length gl - nend - first))) r1 Hal B Hc) as [C D].
  assert (Hle : (nend <= length gl - first)%nat).
  { unfold nend. pose proof (lead_spaces_le (rev (skipn first gl))) as H. rewrite rev_length, skipn_length in H. exact H. }
  pose proof (lead_spaces_le gl) as Hf. fold first in Hf.
  destruct nend as [|ne] eqn:En.
  - rewrite C, map_length, seq_length, A. lia.
  - rewrite total_size_cons. cbn [lsize]. rewrite C, map_length, seq_length, A. lia.
Qed.

End Partition.

(** R. Centered alignment drops the Size of soft hyphens: the glyph 'a', U+00AD, 'b' list gives total Size 2. *)
Definition gq (r : Z) (a : Q) : glyph Q := mkGlyph r a false false 3.
Lemma items_size_partition_centered_refuted :
  exists gl, total_size (glyphs_to_items QO false gl 0 2) <> length gl.
Proof. exists [gq 97 5; gq 173 0; gq 98 5]. vm_compute. discriminate. Qed.

Example items_size_partition_ex :
  centered_disc [gq 97 5; gq 32 3; gq 173 0; gq 98 5; gq 10 0; gq 99 4] 3 = false /\
  total_size (glyphs_to_items QO false [gq 97 5; gq 32 3; gq 173 0; gq 98 5; gq 10 0; gq 99 4] 0 3) = 6%nat.
Proof. split; vm_compute; reflexivity. Qed.

(** ==================================================================================================
    Span placement. *)
Lemma place_from_lb : forall wl x s,
  Forall (fun wlv => 0 <= fst wlv) wl -> In s (fst (place_from x wl)) -> x <= spX s.
Proof.
  induction wl as [|[w l] r IH]; intros x s Hpos Hin; [destruct Hin|].
  cbn [place_from] in Hin. destruct (place_from (x + w) r) as [sp xe] eqn:E. cbn [fst] in Hin.
  inversion Hpos as [|? ? Hw Hr]; subst. cbn [fst] in Hw.
  destruct Hin as [Hin|Hin].
  - subst s. cbn. apply Qle_refl.
  - assert (H : x + w <= spX s) by (apply (IH (x + w)); [exact Hr | rewrite E; exact Hin]).
    eapply Qle_trans; [|exact H]. rewrite <- (Qplus_0_r x) at 1. apply Qplus_le_compat; [apply Qle_refl | exact Hw].
Qed.

(** F. Spans laid one after the other (the loops of NewTextLine and ToText: x += width) do not overlap,
    whatever the (non-negative) widths. *)
Theorem place_from_disjoint : forall wl x,
  Forall (fun wlv => 0 <= fst wlv) wl -> pairwise_disjoint (fst (place_from x wl)) = true.
Proof.
  induction wl as [|[w l] r IH]; intros x Hpos; [reflexivity|].
  cbn [place_from]. destruct (place_from (x + w) r) as [sp xe] eqn:E. cbn [fst pairwise_disjoint].
  inversion Hpos as [|? ? Hw Hr]; subst.
  apply andb_true_iff. split.
  - apply forallb_forall. intros s Hs. unfold disjoint2. apply orb_true_iff. left.
    apply Qle_bool_iff. cbn [spX spW fst snd].
    apply (place_from_lb r (x + w) s Hr). rewrite E. exact Hs.
  - specialize (IH (x + w) Hr). rewrite E in IH. exact IH.
Qed.

(** R. NewTextLine before the fix: a centred line of two spans (widths 3 and 4) puts both at the same X. *)
Lemma textline_center_overlap_refuted :
  exists wl, Forall (fun wlv => 0 < fst wlv) wl /\ pairwise_disjoint (textline_spans false 2 wl) = false.
Proof. exists [(3, 0%Z); (4, 0%Z)]. split; [repeat constructor|]. vm_compute. reflexivity. Qed.

(** the same line after the fix *)
Example textline_center_fixed_ex : pairwise_disjoint (textline_spans true 2 [(3, 0%Z); (4, 1%Z); (2, 1%Z); (5, 0%Z)]) = true.
Proof. vm_compute. reflexivity. Qed.

(** R. reorderSpans before the fix: where the level rises by two, spans land on their neighbours. *)
Definition jump_spans : list span3 := [(0, 1, 0%Z); (1, 2, 2%Z); (3, 3, 2%Z); (6, 4, 0%Z)].
Lemma reorder_old_overlap_refuted :
  pairwise_disjoint jump_spans = true /\ pairwise_disjoint (reorder_spans_old jump_spans) = false /\
  pairwise_disjoint (reorder_spans jump_spans) = true.
Proof. repeat split; vm_compute; reflexivity. Qed.

(** ==================================================================================================
    lines_cover_once: the glyph ranges of the lines tile [ag, ...) in order. *)
Lemma sizes_app a b : sizes (a ++ b) = (sizes a + sizes b)%nat.
Proof. induction a as [|x a IH]; simpl; [reflexivity|]. rewrite IH. lia. Qed.

Lemma skipn_skipn' {A} : forall b a (l : list A), skipn a (skipn b l) = skipn (b + a) l.
Proof. induction b as [|b IH]; intros a l; [reflexivity|]. destruct l as [|x l]; [simpl; destruct a; reflexivity|]. simpl. apply IH. Qed.

Lemma lead_nonbox_prefix l : lead_nonbox l = firstn (length (lead_nonbox l)) l.
Proof. induction l as [|it t IH]; [reflexivity|]. simpl. destruct (is_boxb it); [reflexivity|]. simpl. f_equal. exact IH. Qed.

Lemma lead_glue_prefix l : lead_glue l = firstn (length (lead_glue l)) l.
Proof. induction l as [|it t IH]; [reflexivity|]. simpl. destruct (is_glueb it); [|reflexivity]. simpl. f_equal. exact IH. Qed.

Lemma eol_skip_le l : (eol_skip l <= sizes l)%nat.
Proof.
  unfold eol_skip. assert (H : forall l e, (fold_left (fun e it => if is_boxb it then 0 else e + snd it) l e <= e + sizes l)%nat).
  { induction l0 as [|it t IH]; intro e; simpl; [lia|]. destruct (is_boxb it); [specialize (IH 0%nat) | specialize (IH (e + snd it)%nat)]; lia. }
  specialize (H l 0%nat). lia.
Qed.

(** a sequence of ranges tiles [start, stop): each starts where the previous one ended, and is ordered inside *)
Fixpoint tiles (l : list lrange) (start stop : nat) : Prop :=
  match l with
  | [] => start = stop
  | r :: t => rA0 r = start /\ (rA0 r <= rA1 r)%nat /\ (rA1 r <= rB1 r)%nat /\ (rB1 r <= rB r)%nat /\ tiles t (rB r) stop
  end.

Lemma line_step_ok rest h ag k rg rest' ag' :
  (k < length rest)%nat -> line_step rest h ag k = (rg, rest', ag') ->
  rA0 rg = ag /\ (rA0 rg <= rA1 rg)%nat /\ (rA1 rg <= rB1 rg)%nat /\ (rB1 rg <= rB rg)%nat /\ rB rg = ag' /\
  (ag' + sizes rest' = ag + sizes rest)%nat.
Proof.
  intros Hk H. unfold line_step in H. injection H as H1 H2 H3. subst rg rest' ag'. cbn [rA0 rA1 rB1 rB].
  set (seg := firstn k rest). set (lead := lead_nonbox seg). set (mid := skipn (length lead) seg).
  set (after := lead_glue (skipn (S k) rest)).
  destruct (nth_error rest k) as [b|] eqn:Eb; [|apply nth_error_None in Eb; lia].
  assert (Hseg : sizes seg = (sizes lead + sizes mid)%nat).
  { rewrite <- (firstn_skipn (length lead) seg) at 1. rewrite sizes_app. fold mid. f_equal. unfold lead. rewrite <- lead_nonbox_prefix. reflexivity. }
  assert (Hrest : sizes rest = (sizes seg + snd b + sizes after + sizes (skipn (S k + length after) rest))%nat).
  { rewrite <- (firstn_skipn k rest) at 1. rewrite sizes_app. fold seg.
    assert (Hsk : skipn k rest = b :: skipn (S k) rest).
    { clear - Eb. revert k Eb. induction rest as [|x r IH]; intros [|k] Eb; simpl in *; try discriminate; [inversion Eb; reflexivity | apply IH; exact Eb]. }
    rewrite Hsk. change (sizes (b :: skipn (S k) rest)) with (snd b + sizes (skipn (S k) rest))%nat.
    rewrite <- (firstn_skipn (length after) (skipn (S k) rest)) at 1. rewrite sizes_app.
    replace (firstn (length after) (skipn (S k) rest)) with after by (unfold after; apply lead_glue_prefix).
    rewrite skipn_skipn'. lia. }
  pose proof (eol_skip_le mid) as He.
  repeat split; try lia.
  - destruct h; lia.
  - change (ag + sizes lead + sizes mid + snd b + sizes after + sizes (skipn (S k + length after) rest) = ag + sizes rest)%nat. lia.
Qed.

(** strictly increasing breaks, each inside the items that are left *)
Fixpoint ok_breaks (rest : list bitem) (brs : list (nat * bool)) : Prop :=
  match brs with
  | [] => True
  | (k, _) :: r => (k < length rest)%nat /\ ok_breaks (skipn (S k + length (lead_glue (skipn (S k) rest))) rest) r
  end.

(** F. For every item list, every admissible break list and every choice of hyphenated breaks the ranges
    (skipped at line start, spans, dropped at line end) of consecutive lines tile [ag, agf) in order, and
    agf + (Sizes of the items left over) = ag + (Sizes of all items). *)
Theorem lines_cover_once : forall brs rest ag rgs restf agf,
  ok_breaks rest brs -> lines_ranges rest brs ag = (rgs, restf, agf) ->
  tiles rgs ag agf /\ (agf + sizes restf = ag + sizes rest)%nat.
Proof.
  induction brs as [|[k h] r IH]; intros rest ag rgs restf agf Hok H.
  - cbn in H. inversion H; subst. split; [reflexivity | reflexivity].
  - cbn [lines_ranges] in H. destruct Hok as [Hk Hok].
    destruct (line_step rest h ag k) as [[rg rest'] ag'] eqn:Es.
    destruct (lines_ranges rest' r ag') as [[rgs' restf'] agf'] eqn:El.
    inversion H; subst; clear H.
    destruct (line_step_ok _ _ _ _ _ _ _ Hk Es) as (A0 & A1 & A2 & A3 & A4 & A5).
    assert (Hr : rest' = skipn (S k + length (lead_glue (skipn (S k) rest))) rest).
    { unfold line_step in Es. injection Es as _ E2 _. symmetry; exact E2. }
    rewrite <- Hr in Hok. destruct (IH _ _ _ _ _ Hok El) as [T S].
    split; [|lia]. cbn [tiles]. repeat split; auto. rewrite A4. exact T.
Qed.

(** when the last break is the last item nothing is left over: the lines cover exactly [0, sum of Sizes) —
    with [items_size_partition]: every glyph of the paragraph is in exactly one span or dropped range *)
Corollary lines_cover_all brs its rgs agf :
  ok_breaks its brs -> lines_ranges its brs 0 = (rgs, [], agf) -> tiles rgs 0 (sizes its).
Proof.
  intros Hok H. destruct (lines_cover_once _ _ _ _ _ _ Hok H) as [T S]. simpl in S. rewrite Nat.add_0_r in S. rewrite <- S. exact T.
Qed.

Example lines_cover_ex :
  let its := [(TBox, 3); (TGlue, 1); (TBox, 2); (TPen, 1); (TBox, 2); (TGlue, 0); (TPen, 1)]%nat in
  ok_breaks its [(3, true); (2, false)]%nat /\
  exists rgs, lines_ranges its [(3, true); (2, false)]%nat 0 = (rgs, [], 10%nat).
Proof. split; [cbn; repeat split; lia | eexists; vm_compute; reflexivity]. Qed.

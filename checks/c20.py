"""C20 — concurrent use on independent objects is race-free and deterministic."""
import json, os, re
import vlib

META = dict(
    level="proof",
    technique="Coq theorems over tables regenerated from the Go source by a go/ast translator (pool acquisition sites assign every field; every write to a package-level variable is guarded) + determinism differential of the implementation against itself (alone / after pool pollution / concurrently) + Go race detector in the thorough tier",
    level_text="Logical half proved: for every pool.Get() site of the CURRENT source (table regenerated on every run) the acquired object is "
               "independent of the recycled object's stale contents, and every write to a package-level variable is inside a sync.Once literal or "
               "under a mutex; a source edit that leaves a field of a recycled object unassigned, or adds an unguarded global write, breaks a proof "
               "obligation; by induction over acquisition histories, for any two initial pool contents and any two hand-out policies of the pool a history "
               "over the sites of the regenerated table yields the same observations. Schedule half supported, not proved: every job returns byte-identical results alone, after unrelated calls and under "
               "8 goroutines; the thorough tier repeats this under the Go race detector.",
    level_note="partial by nature: freedom from data races under all schedules is a statement about the Go memory model and runtime that no executable "
               "Gallina model can exhibit. Trusted: the translator harness/cmd/trconc (syntactic: assignments directly after Get() in the same block; "
               "Lock/Unlock pairs in the same block), Coq kernel, Go race detector.",
    coq_targets=[],
    harness=["trconc", "c20"],
)


def prepare():
    """Regenerate Gen/ConcGen.v from the current source (translator)."""
    b = vlib.build_harness("trconc")
    rc, out, err = vlib.run_bin(b, [vlib.REPO])
    if rc != 0:
        raise vlib.BuildError("translator trconc failed on the current source:\n" + err[-2000:])
    d = os.path.join(vlib.THEORIES, "Gen")
    os.makedirs(d, exist_ok=True)
    p = os.path.join(d, "ConcGen.v")
    if not os.path.exists(p) or open(p).read() != out:
        open(p, "w").write(out)
    return out


def run_det(ctx, n, g, race=False, stress=0):
    b = vlib.build_harness("c20", race=race)
    env = dict(os.environ, GORACE="halt_on_error=0")
    rc, out, err = vlib.run_bin(b, ["-seed", str(ctx.seed), "-n", str(n), "-g", str(g), "-repo", vlib.REPO, "-stress", str(stress)], timeout=3000, env=env)
    res = None
    for line in out.split("\n"):
        if line.startswith("{"):
            try:
                res = json.loads(line)
            except ValueError:
                pass
    races = re.findall(r"WARNING: DATA RACE.*?(?=\n==================|\Z)", err, flags=re.S)
    return rc, res, races, err


def run(ctx):
    table = prepare()
    pr, obligations, discharged = vlib.proof_stage(ctx)
    broken = pr["broken"] or not pr["ok"]
    n = ctx.n(48, 240)
    rc, res, races, err = run_det(ctx, n, 8, race=False, stress=ctx.n(12, 120))
    rres, rraces = None, []
    if ctx.thorough or broken:
        # thorough tier, and the search phase when a proof obligation broke: the same under the race detector, more goroutines
        rrc, rres, rraces, rerr = run_det(ctx, n, 16, race=True, stress=ctx.n(10, 120))
    found = False
    if res is None:
        ctx.violation(dict(kind="harness-crashed", stderr=err[-3000:]), "determinism harness crashed (a panic escaped or the runtime aborted)")
        found = True
        res = dict(jobs=0, mismatches=[], kinds={}, nontrivial=0, samples=[])
    for m in ((res.get("mismatches") or []) + ((rres.get("mismatches") or []) if rres else []))[:3]:
        ctx.violation(dict(kind="property-fails-on-implementation", what="a call returns a different result than when run first/alone",
                           seed=ctx.seed, n=n, **m), "%s differs (%s): %r vs %r" % (m["Job"], m["Phase"], m["A"][:60], m["Other"][:60]))
        found = True
    for r in rraces[:2]:
        ctx.violation(dict(kind="property-fails-on-implementation", what="Go race detector report", seed=ctx.seed, n=n, report=r[:4000]),
                      "data race reported by the race detector")
        found = True
    if broken and not found:
        ctx.violation(dict(kind="proof-obligation-broken", theorem_or_file=pr["broken"], bad_axioms=pr["bad_axioms"], log=pr["log"][-2500:],
                           generated_table=table[-3000:],
                           searched="%d jobs alone/polluted/concurrent and under the race detector with 16 goroutines: identical results, no race report" % res["jobs"]),
                      "proof obligation no longer checks on the table regenerated from the source: %s" % (pr["broken"] or pr["bad_axioms"]), found_input=False)
    sites = len(re.findall(r"\(\* path_intersection\.go:\d+ \*\)", table))
    cov = dict(
        obligations=obligations, discharged=discharged,
        checker_cmd="harness/cmd/trconc /repo > coq/theories/Gen/ConcGen.v ; make -C coq theories/Props/C20.vo (coqc 8.16.1, full .vo)",
        trusted_base=vlib.trusted_base(pr, ["translator harness/cmd/trconc (go/ast; recognises v := pool.Get().(*T) followed by *v = ... or v.f = ... before the first read of v; writes to package-level variables classified by enclosing sync.Once literal or Lock/Unlock pair in the same block)",
                                            "Go race detector (thorough tier)"]),
        evaluations=res["jobs"] * 3, distinct_nontrivial=res["nontrivial"],
        rule="one evaluation = one job (boolean op / Settle / Stroke / Offset / Flatten+Dash / text layout with a shared face / LoadFont incl. a font without name records / render to SVG+PDF+PS) in one of three phases: alone in order, shuffled after unrelated calls that populate the pools, concurrently under 8 goroutines, plus a stress phase (the sweep-line jobs repeated from 48 goroutines for a fixed wall time, every result compared with the sequential one); non-trivial = result longer than 8 bytes; distinct by construction (each job has its own generated input)",
        programs=res["jobs"], stress_runs=res.get("stress_runs"), stress_goroutines=res.get("stress_goroutines"), disagreements_checked=len(res.get("mismatches") or []),
        job_kinds=res.get("kinds"), race_detector=dict(ran=bool(rres is not None), reports=len(rraces), jobs=(rres or {}).get("jobs")),
        generated_pool_sites=sites, generated_table_tail=table[-1500:],
        theorems=pr["theorems"], assumptions_per_theorem=pr["assumptions"],
        samples=res.get("samples", []),
    )
    return ctx.finish("proof", cov, [
        "schedule half (absence of data races under all interleavings) is supported by differential runs and the race detector, not proved",
        "the translator is syntactic; assignments to recycled objects in other shapes than those listed make it fail loudly or report the site as not covering"])

"""C04 — Stroke and Offset realise exact distance offsets of the path."""
import vlib

META = dict(
    level="proof",
    technique="Coq proofs of the stroker's building blocks over Q with relational normals (butt quad = perpendicular-distance test, bend test = right turn, miter point/length, square cap extent, similarity scaling) + verified-arithmetic distance oracle on every Stroke/Offset output",
    level_text="Theorems (closed): the butt quad of a segment is exactly the set of points whose foot lies on the segment at perpendicular "
               "distance <= hw; the joiners' bend test is the right-turn test; the miter point lies on both offset lines at squared distance "
               "2hw^4/(hw^2+n0.n1), so an unclipped miter stays within limit*hw; square caps extend hw; similarities scale distances; soundness "
               "lemmas of the exact distance classification. The composition over a whole path (inner-bend repair, closing, curves, Settle) is "
               "NOT proved: every generated Stroke/Offset output (3 cappers x 6 joiners x limits x widths incl. widths larger than the "
               "segments; open and closed, self-intersecting polylines; Offset of simple contours both orientations and signs) is judged in Coq at "
               "sample points classified by their EXACT distance to the input (inside hw-margin must be filled, outside hw+margin and outside "
               "every join/cap zone must be empty).",
    level_note="partial: stroke_region (union of the blocks = neighbourhood) is checked per output, not proved. Polyline inputs on "
               "power-of-two grids are judged by their exact distance; curved inputs (Bezier/arc paths, closed ellipses and blobs, plates "
               "with holes for Offset) are judged against a dense sampling made by the harness (trusted; its deviation is part of the "
               "margin), round joins only. Result arcs are flattened by Go at 2^-10 (part of the margin).",
    coq_targets=["theories/Corr/C04.vo"],
    harness=["c04"],
)

HEADER = ("From Coq Require Import ZArith List Bool.\nFrom CV Require Import Geom.Winding Bool.Check Stroke.Dist Corr.C04.\n"
          "Import ListNotations.\nOpen Scope Z_scope.\n")

CLASSES = {0: "margin band (skipped)", 1: "inner, inside a slab", 2: "outer", 3: "inner corner/cap (round)", 5: "corner under a non-round join",
           6: "beyond a butt cut (skipped)", 7: "outer inside a join/cap zone (skipped)", 8: "outer inside the corner radius of a clipped miter",
           9: "non-simple contour (skipped)"}


def run_mode(ctx, mode, n, wrap):
    rc, cases, err = vlib.harness_cases("c04", ["-seed", str(ctx.seed), "-n", str(n), "-mode", mode], timeout=3000)
    live = [c for c in cases if c["coq"]]
    crashed = [c for c in cases if not c["coq"]]
    rows = vlib.coq_eval_shards("c04-%s-%d" % (mode, ctx.seed), HEADER, [c["coq"] for c in live], shard=16, wrap=wrap, timeout=2400)
    classes, bad = {}, []
    for c, row in zip(live, rows):
        smp = c["desc"]["samples_units_2^-30"]
        for k in range(len(row) // 2):
            fl, cl = row[2 * k], row[2 * k + 1]
            classes[cl] = classes.get(cl, 0) + 1
            if fl:
                bad.append((c, fl, [smp[k]["X"] / 2.0**30, smp[k]["Y"] / 2.0**30, k]))
    for c in crashed:
        bad.append((c, -1, None))
    return cases, live, bad, classes


def match_known(known, c, fl, p=None):
    for f in known:
        t = f.get("trigger", {})
        if t.get("ellipse"):
            # exact trigger: an eccentric elliptical arc in the input, and the sample lies in the band around w/2 that the substituted
            # ellipse can be off by (computed per case by the harness from the true parallel curve)
            err = c["desc"].get("ellipse_offset_error", 0)
            if err > 0 and fl in t["flags_any"] and p is not None and len(p) == 3 and c["desc"].get("sample_dist"):
                hw = abs(c["desc"]["offset"]) if "offset" in c["desc"] else c["desc"]["width"] / 2
                if abs(c["desc"]["sample_dist"][p[2]] - hw) <= 1.5 * err + 0.03:
                    return f
            continue
        if t.get("flags") == fl and (not t.get("joins") or c["desc"].get("join") in t["joins"]):
            return f
    return None


def run(ctx):
    pr, obligations, discharged = vlib.proof_stage(ctx, META["coq_targets"])
    if pr["broken"] or not pr["ok"]:
        ctx.violation(dict(kind="proof-obligation-broken", theorem_or_file=pr["broken"], bad_axioms=pr["bad_axioms"], log=pr["log"][-2000:]),
                      "proof obligation no longer checks: %s" % (pr["broken"] or pr["bad_axioms"]), found_input=False)
    known = [f for f in vlib.known_findings("C04") if f.get("status") == "open"]
    scases, slive, sbad, scls = run_mode(ctx, "stroke", ctx.n(350, 6000), "judge")
    ocases, olive, obad, ocls = run_mode(ctx, "offset", ctx.n(200, 3000), "judge_ox")
    what = {4: "a point closer than w/2 - tol to the path is not filled", 8: "a point farther than w/2 + tol from the path and outside every join/cap zone is filled",
            16: "corner point not filled", 32: "clipped-miter corner beyond limit*w/2", 68: "a point closer than w/2 - tol is not filled (path has a segment shorter than w/2)",
            -1: "panic or hang"}
    reported, seen = 0, set()
    allbad = [(c, fl, p, "Stroke") for c, fl, p in sbad] + [(c, fl, p, "Offset") for c, fl, p in obad]
    allbad.sort(key=lambda t: len(t[0]["desc"]["path"]))
    for c, fl, p, op in allbad:
        f = match_known(known, c, fl, p) if (op == "Stroke" or c["desc"].get("ellipse_offset_error")) else None
        p = p[:2] if p else p
        if f:
            if f["key"] not in seen:
                seen.add(f["key"])
                if op == "Stroke":
                    ctx.known_finding("%s (e.g. Stroke(%s, %s, %s, limit %s) of %s at %s)" % (f["what"], c["desc"].get("width"), c["desc"].get("cap"),
                                                                                              c["desc"].get("join"), c["desc"].get("limit"), c["desc"]["path"], p))
                else:
                    ctx.known_finding("%s (e.g. Offset(%s) of %s at %s)" % (f["what"], c["desc"].get("offset"), c["desc"]["path"], p))
            continue
        if reported < 3:
            d = dict(kind="property-fails-on-implementation", what=what.get(fl, "flags %d" % fl), op=op, seed=ctx.seed, index=c["i"], family=c["fam"], sample=p, flags=fl)
            d.update({k: v for k, v in c["desc"].items() if k not in ("samples_units_2^-30", "sample_dist")})
            ctx.violation(d, "%s: %s of %s" % (what.get(fl, fl), op, c["desc"]["path"]))
        reported += 1
    judged = sum(v for k, v in scls.items() if k in (1, 2, 3, 5, 8)) + sum(v for k, v in ocls.items() if k in (1, 2))
    cov = dict(
        obligations=obligations, discharged=discharged,
        checker_cmd="make -C coq theories/Props/C04.vo (coqc 8.16.1, full .vo) ; coqc on generated cases files (vm_compute)",
        trusted_base=vlib.trusted_base(pr, ["harness harness/cmd/c04 (Go): generators, Go's own Flatten(2^-10) of the result, rounding to the 2^-30 sample grid",
                                            "exact squared-distance classification in Coq (Stroke/Dist.v), winding numbers from Geom/Winding.v"]),
        evaluations=judged, distinct_nontrivial=len({(c["desc"]["path"], c["desc"].get("width"), c["desc"].get("cap"), c["desc"].get("join"), c["desc"].get("limit"), c["desc"].get("offset")) for c in slive + olive}),
        rule="one evaluation = one judged sample point of one Stroke/Offset output; distinct = distinct (path, width/offset, cap, join, limit); every path has a segment of non-zero length",
        programs=len(slive) + len(olive), disagreements_checked=len(allbad),
        stroke=dict(outputs=len(slive), crashed=len(scases) - len(slive), classes={CLASSES.get(k, k): v for k, v in scls.items()}, families=vlib.histogram([c["fam"].split("/")[0] for c in slive]),
                    styles=vlib.histogram(["/".join(c["fam"].split("/")[1:]) for c in slive])),
        offset=dict(outputs=len(olive), crashed=len(ocases) - len(olive), classes={CLASSES.get(k, k): v for k, v in ocls.items()}, families=vlib.histogram([c["fam"] for c in olive])),
        theorems=pr["theorems"], assumptions_per_theorem=pr["assumptions"],
        samples=[{k: v for k, v in c["desc"].items() if k != "samples_units_2^-30"} for c in (slive[:2] + olive[:1])],
    )
    return ctx.finish("proof", cov, [
        "margin = tolerance 2^-7 + result flattening 2^-10 + 2^-9; points within the margin of the ideal boundary are not judged",
        "Offset is judged on simple contours only (exact crossing test in Coq)"])

(** C12 — the page writers of the PDF, PostScript and SVG back-ends as state machines with their caches, faithful to
    renderers/pdf/{pdf.go RenderPath, writer.go Set*}, renderers/ps/ps.go, renderers/svg/svg.go RenderPath, and
    interpreters of the operator subset they emit (ISO 32000-1 §8.4–8.5, PLRM 3rd ed. §4.5/§8.2, SVG 1.1 §11).
    [fixed = false] is the code at the pinned commit, [fixed = true] the code after the fix: commits. *)
From Coq Require Import QArith ZArith List Bool.
From CV Require Import Render.Sem.
Import ListNotations.
Open Scope Q_scope.

(** one recorded draw as handed to a back-end: style, similarity of the view (m.IsSimilarity()), its scale
    k = sqrt|det m| (computed by Go; relation k*k ~ |det| checked by the judge), the transformed geometry
    path.Transform(m) and the outline the back-end wrote in the fallback case (an input: path.Stroke is not modelled) *)
Record draw := mkDraw { dS : style; dSim : bool; dK : Q; dGeo : geo; dOutline : geo }.

Definition qeqb (a b : Q) : bool := Qeq_bool a b.
Fixpoint qlist_eqb (a b : list Q) : bool :=
  match a, b with
  | [], [] => true
  | x :: a', y :: b' => qeqb x y && qlist_eqb a' b'
  | _, _ => false
  end.
Definition rgba_eqb (a b : rgba) : bool :=
  let '(a1, a2, a3, a4) := a in let '(b1, b2, b3, b4) := b in ((a1 =? b1) && (a2 =? b2) && (a3 =? b3) && (a4 =? b4))%Z.
(** Paint.Equal: both uniform colours with equal RGBA, or the same gradient *)
Definition paint_eqb (p q : paint) : bool :=
  match p, q with
  | PColor a, PColor b => paint_has p && paint_has q && rgba_eqb a b
  | PGrad a, PGrad b => (a =? b)%Z
  | _, _ => false
  end.

Definition qsum (l : list Q) : Q := fold_right Qplus 0 l.
Definition qfloor (q : Q) : Z := (Qnum q / Zpos (Qden q))%Z.

(** ScaleDash *)
Definition scale_dash (s off : Q) (ds : list Q) : Q * list Q := (Qred (off * s), map (fun d => Qred (d * s)) ds).

(** does the data end with a close ("h" stripped, s/b used)? *)
Fixpoint strip_close (g : geo) : geo * bool :=
  match g with
  | [] => ([], false)
  | [(3%Z, _)] => ([], true)
  | s :: r => let '(r', c) := strip_close r in (s :: r', c)
  end.

(** ================= PDF ================= *)
Inductive ptok :=
| Tg (x : Q) | Trg (r g b : Q) | TG (x : Q) | TRG (r g b : Q)
| Tgs (alpha : Q)                 (* /An gs, resolved through the page's ExtGState to its CA = ca value *)
| Tscn (id : Z) | TSCN (id : Z)   (* /Pattern cs /Pk scn *)
| Tw (x : Q) | TJ (c : Z) | Tj (c : Z) | TM (x : Q) | Td (ds : list Q) (ph : Q)
| Tpath (g : geo)
| Tpaint (op : Z)                 (* 0 f, 1 f*, 2 S, 3 s, 4 B, 5 B*, 6 b, 7 b*, 8 "S*", 9 "s*" (not PDF operators) *)
| Tcm (s : Q)                     (* uniform scale  s 0 0 s 0 0 cm *)
| Tother.

Record pdfw := mkPdfw { wfill : paint; wstroke : paint; walpha : Q; wlw : Q; wcap : Z; wjoin : Z; wml : Q; wdash : list Q }.
(** NewPage: fill/stroke Black, alpha 1, lineWidth 1, cap 0, join 0, miterLimit 10, dashes {0.0} *)
Definition pdfw_init : pdfw := mkPdfw (PColor (0, 0, 0, 255)%Z) (PColor (0, 0, 0, 255)%Z) 1 1 0 0 10 [0].

Definition set_alpha (a : Q) (w : pdfw) : list ptok * pdfw :=
  if qeqb a (walpha w) then ([], w)
  else ([Tgs a], mkPdfw (wfill w) (wstroke w) a (wlw w) (wcap w) (wjoin w) (wml w) (wdash w)).

Definition with_fill (p : paint) (w : pdfw) := mkPdfw p (wstroke w) (walpha w) (wlw w) (wcap w) (wjoin w) (wml w) (wdash w).
Definition with_stroke (p : paint) (w : pdfw) := mkPdfw (wfill w) p (walpha w) (wlw w) (wcap w) (wjoin w) (wml w) (wdash w).

Definition is_gray (c : rgba) : bool := let '(r, g, b, _) := c in ((r =? g) && (r =? b))%Z.

Definition set_fill (fixed : bool) (p : paint) (w : pdfw) : list ptok * pdfw :=
  if paint_eqb p (wfill w) then
    (if fixed then match p with PColor _ => set_alpha (paint_alpha p) w | PGrad _ => set_alpha 1 w | PNone => ([], w) end else ([], w))
  else match p with
       | PNone => ([], w)   (* never called: HasFill *)
       | PGrad id => if fixed then let '(t2, w2) := set_alpha 1 w in (Tscn id :: t2, with_fill p w2) else ([Tscn id], with_fill p w)
       | PColor c =>
           let '(r, g, b) := paint_col p in
           let t1 := if is_gray c then [Tg r] else [Trg r g b] in
           let '(t2, w2) := set_alpha (paint_alpha p) w in
           (t1 ++ t2, with_fill p w2)
       end.

Definition set_stroke (fixed : bool) (p : paint) (w : pdfw) : list ptok * pdfw :=
  if paint_eqb p (wstroke w) then
    (if fixed then match p with PColor _ => set_alpha (paint_alpha p) w | PGrad _ => set_alpha 1 w | PNone => ([], w) end else ([], w))
  else match p with
       | PNone => ([], w)
       | PGrad id => if fixed then let '(t2, w2) := set_alpha 1 w in (TSCN id :: t2, with_stroke p w2) else ([TSCN id], with_stroke p w)
       | PColor c =>
           let '(r, g, b) := paint_col p in
           let t1 := if is_gray c then [TG r] else [TRG r g b] in
           let '(t2, w2) := set_alpha (paint_alpha p) w in
           (t1 ++ t2, with_stroke p w2)
       end.

Definition set_lw (x : Q) (w : pdfw) : list ptok * pdfw :=
  if qeqb x (wlw w) then ([], w)
  else ([Tw x], mkPdfw (wfill w) (wstroke w) (walpha w) x (wcap w) (wjoin w) (wml w) (wdash w)).

Definition set_cap (c : Z) (w : pdfw) : list ptok * pdfw :=
  if (c =? wcap w)%Z then ([], w)
  else ([TJ c], mkPdfw (wfill w) (wstroke w) (walpha w) (wlw w) c (wjoin w) (wml w) (wdash w)).

(** SetLineJoin for a natively supported joiner (code, optional miter limit) *)
Definition set_join (j : Z) (ml : option Q) (w : pdfw) : list ptok * pdfw :=
  let t1 := if (j =? wjoin w)%Z then [] else [Tj j] in
  let w1 := mkPdfw (wfill w) (wstroke w) (walpha w) (wlw w) (wcap w) j (wml w) (wdash w) in
  match ml with
  | Some l => if (j =? 0)%Z && negb (qeqb l (wml w1))
              then (t1 ++ [TM l], mkPdfw (wfill w1) (wstroke w1) (walpha w1) (wlw w1) (wcap w1) (wjoin w1) l (wdash w1))
              else (t1, w1)
  | None => (t1, w1)
  end.

(** SetDashes: odd arrays doubled, negative phase raised by whole periods (period > 0), compared with the cache as
    dashes ++ [phase]; the empty array is written as "[] 0 d" and cached as {0} *)
Definition norm_phase (ph : Q) (ds : list Q) : Q :=
  if Qle_bool 0 ph then ph
  else let t := qsum ds in
       if Qle_bool t 0 then 0    (* no dashes: phase reset (before the fix: the Go loop did not terminate) *)
       else Qred (ph + t * inject_Z (- qfloor (ph / t))).
Definition set_dashes (ph : Q) (ds : list Q) (w : pdfw) : list ptok * pdfw :=
  let ds := if Nat.odd (length ds) then ds ++ ds else ds in
  let ph := norm_phase ph ds in
  let all := ds ++ [ph] in
  if qlist_eqb all (wdash w) then ([], w)
  else match ds with
       | [] => ([Td [] 0], mkPdfw (wfill w) (wstroke w) (walpha w) (wlw w) (wcap w) (wjoin w) (wml w) [0])
       | _ => ([Td ds ph], mkPdfw (wfill w) (wstroke w) (walpha w) (wlw w) (wcap w) (wjoin w) (wml w) all)
       end.

Definition seq2 {S T} (f g : S -> list T * S) (s : S) : list T * S :=
  let '(t1, s1) := f s in let '(t2, s2) := g s1 in (t1 ++ t2, s2).
Definition emit {S T} (t : list T) (s : S) : list T * S := (t, s).
Notation "f ;; g" := (seq2 f g) (at level 61, right associativity).

(** the stroke a back-end requests natively: Some (width*k, cap, join, limit, offset*W*k, dashes*W*k) *)
Definition native_stroke (d : draw) : option (Q * Z * Z * option Q * Q * list Q) :=
  match join_native (sJoin (dS d)) with
  | Some (j, ml) =>
      if dSim d then
        let w := Qred (sWidth (dS d) * dK d) in
        let '(off, ds) := scale_dash w (sOff (dS d)) (sDashes (dS d)) in
        Some (w, sCap (dS d), j, match ml with Some l => Some (Qred l) | None => None end, off, ds)
      else None
  | None => None
  end.

Definition pdf_stroke_state (fixed : bool) (d : draw) (ns : Q * Z * Z * option Q * Q * list Q) :=
  let '(w, c, j, ml, off, ds) := ns in
  set_stroke fixed (sStroke (dS d)) ;; set_lw w ;; set_cap c ;; set_join j ml ;; set_dashes off ds.

Definition star (fixed stroke_only : bool) (eo : bool) (op : Z) : Z :=
  if eo then (if stroke_only then (if fixed then op else op + 6)%Z else (op + 1)%Z) else op.
(** op codes: f 0 / f* 1; S 2, s 3 ("S*" 8, "s*" 9 before the fix); B 4 / B* 5; b 6 / b* 7 *)

Definition pdf_draw (fixed : bool) (d : draw) : pdfw -> list ptok * pdfw :=
  let s := dS d in
  let '(data, closed) := strip_close (dGeo d) in
  let eo := sEvenOdd s in
  let fill_part := set_fill fixed (sFill s) ;; emit [Tpath data; Tpaint (star fixed false eo 0)] in
  if negb (has_stroke s) then
    (if has_fill s then fill_part else emit [])
  else match native_stroke d with
       | Some ns =>
           let sop := Tpaint (star fixed true eo (if closed then 3 else 2)%Z) in
           if negb (has_fill s) then pdf_stroke_state fixed d ns ;; emit [Tpath data; sop]
           else
             let same := match sFill s, sStroke s with
                         | PColor (_, _, _, a), PColor (_, _, _, b) => (a =? b)%Z
                         | _, _ => false end in
             if same then
               set_fill fixed (sFill s) ;; pdf_stroke_state fixed d ns ;;
               emit [Tpath data; Tpaint (star fixed false eo (if closed then 6 else 4)%Z)]
             else fill_part ;; pdf_stroke_state fixed d ns ;; emit [Tpath data; sop]
       | None =>
           (if has_fill s then fill_part else emit []) ;;
           set_fill fixed (sStroke s) ;; emit [Tpath (dOutline d); Tpaint 0]
       end.

Fixpoint pdf_write (fixed : bool) (ds : list draw) (w : pdfw) : list ptok :=
  match ds with
  | [] => []
  | d :: r => let '(t, w1) := pdf_draw fixed d w in t ++ pdf_write fixed r w1
  end.

(** ---- interpreter ---- *)
Record pdfg := mkPdfg { gfc : col3; gsc : col3; gal : Q; glw : Q; gcap : Z; gjoin : Z; gml : Q; gds : list Q; gph : Q;
                        gpath : geo }.
(** ISO 32000-1 Table 52/53 initial values: black, CA = ca = 1, line width 1, butt, miter, limit 10, solid *)
Definition pdfg_init : pdfg := mkPdfg (0, 0, 0) (0, 0, 0) 1 1 0 0 10 [] 0 [].

Definition g_fill_op (eo : bool) (g : pdfg) : pop := mkPop (KFill eo) (gpath g) (gfc g) (gal g).
Definition g_stroke_op (closed : bool) (g : pdfg) : pop :=
  (* the miter limit is meaningful for miter joins only *)
  mkPop (KStroke closed (glw g) (gcap g) (gjoin g) (if (gjoin g =? 0)%Z then gml g else 0) (gds g) (gph g)) (gpath g) (gsc g) (gal g).

Definition pdf_paint_ops (op : Z) (g : pdfg) : list pop :=
  match op with
  | 0 => [g_fill_op false g] | 1 => [g_fill_op true g]
  | 2 => [g_stroke_op false g] | 3 => [g_stroke_op true g]
  | 4 => [g_fill_op false g; g_stroke_op false g] | 5 => [g_fill_op true g; g_stroke_op false g]
  | 6 => [g_fill_op false g; g_stroke_op true g] | 7 => [g_fill_op true g; g_stroke_op true g]
  | _ => [mkPop KBad (gpath g) (gsc g) (gal g)]
  end%Z.

Definition pdf_step (t : ptok) (g : pdfg) : list pop * pdfg :=
  let upd fc sc al lw cap join ml ds ph pa := mkPdfg fc sc al lw cap join ml ds ph pa in
  match t with
  | Tg x => ([], upd (x, x, x) (gsc g) (gal g) (glw g) (gcap g) (gjoin g) (gml g) (gds g) (gph g) (gpath g))
  | Trg r gg b => ([], upd (r, gg, b) (gsc g) (gal g) (glw g) (gcap g) (gjoin g) (gml g) (gds g) (gph g) (gpath g))
  | TG x => ([], upd (gfc g) (x, x, x) (gal g) (glw g) (gcap g) (gjoin g) (gml g) (gds g) (gph g) (gpath g))
  | TRG r gg b => ([], upd (gfc g) (r, gg, b) (gal g) (glw g) (gcap g) (gjoin g) (gml g) (gds g) (gph g) (gpath g))
  | Tgs a => ([], upd (gfc g) (gsc g) a (glw g) (gcap g) (gjoin g) (gml g) (gds g) (gph g) (gpath g))
  | Tscn id => ([], upd (paint_col (PGrad id)) (gsc g) (gal g) (glw g) (gcap g) (gjoin g) (gml g) (gds g) (gph g) (gpath g))
  | TSCN id => ([], upd (gfc g) (paint_col (PGrad id)) (gal g) (glw g) (gcap g) (gjoin g) (gml g) (gds g) (gph g) (gpath g))
  | Tw x => ([], upd (gfc g) (gsc g) (gal g) x (gcap g) (gjoin g) (gml g) (gds g) (gph g) (gpath g))
  | TJ c => ([], upd (gfc g) (gsc g) (gal g) (glw g) c (gjoin g) (gml g) (gds g) (gph g) (gpath g))
  | Tj c => ([], upd (gfc g) (gsc g) (gal g) (glw g) (gcap g) c (gml g) (gds g) (gph g) (gpath g))
  | TM x => ([], upd (gfc g) (gsc g) (gal g) (glw g) (gcap g) (gjoin g) x (gds g) (gph g) (gpath g))
  | Td ds ph => ([], upd (gfc g) (gsc g) (gal g) (glw g) (gcap g) (gjoin g) (gml g) ds ph (gpath g))
  | Tpath p => ([], upd (gfc g) (gsc g) (gal g) (glw g) (gcap g) (gjoin g) (gml g) (gds g) (gph g) p)
  | Tpaint op => (pdf_paint_ops op g, upd (gfc g) (gsc g) (gal g) (glw g) (gcap g) (gjoin g) (gml g) (gds g) (gph g) [])
  | Tcm _ => ([], g)      (* the page's mm->pt scale is applied by the judge to the whole result (Units.v) *)
  | Tother => ([], g)
  end.

Fixpoint exec_pdf (ts : list ptok) (g : pdfg) : list pop :=
  match ts with
  | [] => []
  | t :: r => let '(o, g1) := pdf_step t g in o ++ exec_pdf r g1
  end.

(** what the drawing asks for, independent of any state: fill first, then the stroke (native or outline) *)
Definition spec_fill (d : draw) (data : geo) : list pop :=
  if has_fill (dS d) then [mkPop (KFill (sEvenOdd (dS d))) data (paint_col (sFill (dS d))) (paint_alpha (sFill (dS d)))] else [].
Definition pdf_dash_spec (off : Q) (ds : list Q) : list Q * Q :=
  let ds := if Nat.odd (length ds) then ds ++ ds else ds in
  match ds with [] => ([], 0) | _ => (ds, norm_phase off ds) end.
Definition pdf_spec (d : draw) : list pop :=
  let s := dS d in
  let '(data, closed) := strip_close (dGeo d) in
  if negb (has_stroke s) then spec_fill d data
  else match native_stroke d with
       | Some (w, c, j, ml, off, ds) =>
           let '(ds', ph') := pdf_dash_spec off ds in
           spec_fill d data ++
           [mkPop (KStroke closed w c j (if (j =? 0)%Z then match ml with Some l => l | None => 0 end else 0) ds' ph') data (paint_col (sStroke s)) (paint_alpha (sStroke s))]
       | None =>
           spec_fill d data ++ [mkPop (KFill false) (dOutline d) (paint_col (sStroke s)) (paint_alpha (sStroke s))]
       end.

(** C07 — Affine transformation of a path transforms every point of it.
    Property theorems only; each is closed by [exact] of a lemma proved elsewhere. *)
From Coq Require Import QArith List Bool.
From CV Require Import Geom.Matrix Geom.MatrixProofs Geom.Bezier Geom.Ellipse Gen.MatrixGen Geom.MatrixBridge Corr.C07.
Import ListNotations.
Open Scope Q_scope.

(** The definitions regenerated from the CURRENT util.go by the translator equal the model (all methods). *)
Theorem C07_matrix_bridge :
  (forall m q, meq (g_Mul m q) (mmul m q)) /\ (forall m p, pteq (g_Dot m p) (mdot m p)) /\
  (forall m, g_Det m == mdet m) /\ (forall m, meq (g_T m) (mT m)) /\
  (forall m x y, meq (g_Translate m x y) (mtranslate m x y)) /\
  (forall m sx sy, meq (g_Scale m sx sy) (mscale m sx sy)) /\
  (forall m sx sy, meq (g_Shear m sx sy) (mshear m sx sy)) /\
  (forall m, meq (g_ReflectX m) (mreflectx m)) /\ (forall m, meq (g_ReflectY m) (mreflecty m)) /\
  (forall m sx sy x y, meq (g_ScaleAbout m sx sy x y) (mscale_about m sx sy x y)) /\
  (forall m sx sy x y, meq (g_ShearAbout m sx sy x y) (mshear_about m sx sy x y)) /\
  (forall m x, meq (g_ReflectXAbout m x) (mreflectx_about m x)) /\
  (forall m y, meq (g_ReflectYAbout m y) (mreflecty_about m y)) /\
  (forall m, optmeq (g_Inv m) (minv m)) /\
  (forall m, g_Decompose_E m == decE m /\ g_Decompose_F m == decF m /\ g_Decompose_G m == decG m /\ g_Decompose_H m == decH m).
Proof. exact matrix_bridge. Qed.
Print Assumptions C07_matrix_bridge.

(** Mul composes right-to-left and Dot applies: Dot (Mul a b) p = Dot a (Dot b p). *)
Theorem C07_dot_mul : forall a b p, pteq (mdot (mmul a b) p) (mdot a (mdot b p)).
Proof. exact dot_mul. Qed.
Print Assumptions C07_dot_mul.

Theorem C07_mul_assoc : forall a b c, meq (mmul (mmul a b) c) (mmul a (mmul b c)).
Proof. exact mul_assoc. Qed.
Print Assumptions C07_mul_assoc.

Theorem C07_mul_id_l : forall a, meq (mmul mid a) a.
Proof. exact mul_id_l. Qed.
Print Assumptions C07_mul_id_l.
Theorem C07_mul_id_r : forall a, meq (mmul a mid) a.
Proof. exact mul_id_r. Qed.
Print Assumptions C07_mul_id_r.

(** Inv inverts (both sides) whenever it does not panic, and it panics exactly when det = 0. *)
Theorem C07_inv_left : forall a i, minv a = Some i -> meq (mmul i a) mid.
Proof. exact inv_left. Qed.
Print Assumptions C07_inv_left.
Theorem C07_inv_right : forall a i, minv a = Some i -> meq (mmul a i) mid.
Proof. exact inv_right. Qed.
Print Assumptions C07_inv_right.
Theorem C07_inv_defined : forall a, ~ mdet a == 0 -> exists i, minv a = Some i.
Proof. exact minv_some. Qed.
Print Assumptions C07_inv_defined.
Theorem C07_inv_panics : forall a, minv a = None <-> mdet a == 0.
Proof. exact minv_none. Qed.
Print Assumptions C07_inv_panics.

(** T transposes (the 2x2 part; Go keeps the translation column). *)
Theorem C07_T_involutive : forall a, meq (mT (mT a)) a.
Proof. exact T_involutive. Qed.
Print Assumptions C07_T_involutive.
Theorem C07_T_mul : forall a b, meq (mlin (mT (mmul a b))) (mmul (mlin (mT b)) (mlin (mT a))).
Proof. exact T_mul_lin. Qed.
Print Assumptions C07_T_mul.
Theorem C07_det_T : forall a, mdet (mT a) == mdet a.
Proof. exact det_T. Qed.
Print Assumptions C07_det_T.
Theorem C07_det_mul : forall a b, mdet (mmul a b) == mdet a * mdet b.
Proof. exact det_mul. Qed.
Print Assumptions C07_det_mul.

(** The helpers act on points as documented (each is Mul by its elementary matrix, applied first). *)
Theorem C07_translate_dot : forall m x y p, pteq (mdot (mtranslate m x y) p) (mdot m (fst p + x, snd p + y)).
Proof. exact translate_dot. Qed.
Print Assumptions C07_translate_dot.
Theorem C07_scale_dot : forall m sx sy p, pteq (mdot (mscale m sx sy) p) (mdot m (sx * fst p, sy * snd p)).
Proof. exact scale_dot. Qed.
Print Assumptions C07_scale_dot.
Theorem C07_shear_dot : forall m sx sy p, pteq (mdot (mshear m sx sy) p) (mdot m (fst p + sx * snd p, sy * fst p + snd p)).
Proof. exact shear_dot. Qed.
Print Assumptions C07_shear_dot.
Theorem C07_rotate_dot : forall m c s p, pteq (mdot (mrotate_cs m c s) p) (mdot m (c * fst p - s * snd p, s * fst p + c * snd p)).
Proof. exact rotate_dot. Qed.
Print Assumptions C07_rotate_dot.
Theorem C07_reflectx_dot : forall m p, pteq (mdot (mreflectx m) p) (mdot m (- fst p, snd p)).
Proof. exact reflectx_dot. Qed.
Print Assumptions C07_reflectx_dot.
Theorem C07_reflecty_dot : forall m p, pteq (mdot (mreflecty m) p) (mdot m (fst p, - snd p)).
Proof. exact reflecty_dot. Qed.
Print Assumptions C07_reflecty_dot.

(** Each *About fixes its centre. *)
Theorem C07_scale_about_fixes : forall m sx sy x y, pteq (mdot (mscale_about m sx sy x y) (x, y)) (mdot m (x, y)).
Proof. exact scale_about_fixes. Qed.
Print Assumptions C07_scale_about_fixes.
Theorem C07_shear_about_fixes : forall m sx sy x y, pteq (mdot (mshear_about m sx sy x y) (x, y)) (mdot m (x, y)).
Proof. exact shear_about_fixes. Qed.
Print Assumptions C07_shear_about_fixes.
Theorem C07_rotate_about_fixes : forall m c s x y, pteq (mdot (mrotate_about_cs m c s x y) (x, y)) (mdot m (x, y)).
Proof. exact rotate_about_fixes. Qed.
Print Assumptions C07_rotate_about_fixes.
Theorem C07_reflectx_about_mirror : forall x d y, pteq (mdot (mreflectx_about mid x) (x + d, y)) (x - d, y).
Proof. exact reflectx_about_mirror. Qed.
Print Assumptions C07_reflectx_about_mirror.
Theorem C07_reflecty_about_mirror : forall x y d, pteq (mdot (mreflecty_about mid y) (x, y + d)) (x, y - d).
Proof. exact reflecty_about_mirror. Qed.
Print Assumptions C07_reflecty_about_mirror.

(** Béziers: transforming the control points transforms every point of the segment, at the same parameter
    (hence in the same direction), for lines, quadratics and cubics and for ALL t. *)
Theorem C07_bezier_affine : forall m ctrl t, opteq (bez (map (mdot m) ctrl) t) (option_map (mdot m) (bez ctrl t)).
Proof. exact bezier_affine. Qed.
Print Assumptions C07_bezier_affine.

(** the K2 checker's acceptance of a Bézier record means exactly the hypothesis of the theorem above *)
Theorem C07_chk_transform_bezier_sound : forall m pin pout,
  pts_ok true m pin pout = true -> Forall2 (fun a b => pteq b (mdot m a)) pin pout.
Proof. exact pts_ok_exact. Qed.
Print Assumptions C07_chk_transform_bezier_sound.

(** Arcs: X lies on the ellipse (c, Q) iff m X lies on (m c, m^-T Q m^-1). *)
Theorem C07_conic_transport : forall m i c k X,
  minv m = Some i -> (on_conic c k X <-> on_conic (mdot m c) (conic_pull i k) (mdot m X)).
Proof. exact conic_transport. Qed.
Print Assumptions C07_conic_transport.

(** ... and m^-T Q m^-1 is what Path.Transform computes (invT.T().Mul(Q).Mul(invT)). *)
Theorem C07_conic_pull_as_mul : forall i k, meq (mlin (mmul (mmul (mT i) (conic_mat k)) i)) (conic_mat (conic_pull i k)).
Proof. exact conic_pull_as_mul. Qed.
Print Assumptions C07_conic_pull_as_mul.

(** Orientation: cross products scale by det m, and Decompose's xscale*yscale is det m. *)
Theorem C07_orientation_det : forall m o p q,
  qcross (qsub (mdot m p) (mdot m o)) (qsub (mdot m q) (mdot m o)) == mdet m * qcross (qsub p o) (qsub q o).
Proof. exact orientation_det. Qed.
Print Assumptions C07_orientation_det.
Theorem C07_decompose_scales_det : forall m Qv Rv,
  Qv * Qv == decE m * decE m + decH m * decH m -> Rv * Rv == decF m * decF m + decG m * decG m ->
  (Qv + Rv) * (Qv - Rv) == mdet m.
Proof. exact decompose_scales_det. Qed.
Print Assumptions C07_decompose_scales_det.

(** The sweep must flip exactly for det < 0. *)
Theorem C07_span_transport_pos : forall m sw u v w,
  0 < mdet m -> (in_span sw (mvec m u) (mvec m v) (mvec m w) <-> in_span sw u v w).
Proof. exact span_transport_pos. Qed.
Print Assumptions C07_span_transport_pos.
Theorem C07_span_transport_neg : forall m sw u v w,
  mdet m < 0 -> (in_span (negb sw) (mvec m u) (mvec m v) (mvec m w) <-> in_span sw u v w).
Proof. exact span_transport_neg. Qed.
Print Assumptions C07_span_transport_neg.
Theorem C07_arc_large_transport : forall m sw u v,
  ~ mdet m == 0 -> arc_large (if Qle_bool 0 (mdet m) then sw else negb sw) (mvec m u) (mvec m v) = arc_large sw u v.
Proof. exact arc_large_transport. Qed.
Print Assumptions C07_arc_large_transport.

(** Arcs as point sets: X is a point of the arc iff m X is a point of the image arc (centre, start, end mapped,
    form transported, sweep flipped iff det < 0) — rotation, non-uniform scaling, shear, reflection alike. *)
Theorem C07_arc_affine : forall m i a X, minv m = Some i -> (on_arc a X <-> on_arc (arc_map m i a) (mdot m X)).
Proof. exact arc_affine. Qed.
Print Assumptions C07_arc_affine.

(** The centre parametrisation used by the code (EllipsePos) produces points of the conic. *)
Theorem C07_ellipse_pos_on : forall rx ry cs sn c u v,
  ~ rx == 0 -> ~ ry == 0 -> cs * cs + sn * sn == 1 -> u * u + v * v == 1 ->
  on_conic c (ellipse_conic rx ry cs sn) (ellipse_pos rx ry cs sn c u v).
Proof. exact ellipse_pos_on. Qed.
Print Assumptions C07_ellipse_pos_on.

(** Decompose describes the same transformation (relational form: Go supplies the cos/sin of its angles). *)
Theorem C07_decompose_recompose : forall m tx ty cp sp sx sy ct st,
  tx == mc m -> ty == mf m ->
  (sx + sy) / 2 * (cp * ct - sp * st) == decE m ->
  (sx + sy) / 2 * (sp * ct + cp * st) == decH m ->
  (sx - sy) / 2 * (cp * ct + sp * st) == decF m ->
  (sx - sy) / 2 * (sp * ct - cp * st) == decG m ->
  meq (recompose tx ty cp sp sx sy ct st) m.
Proof. exact decompose_recompose. Qed.
Print Assumptions C07_decompose_recompose.

(** Rect.Transform: the box of the four transformed corners contains the image of every point of the rectangle. *)
Theorem C07_rect_transform_contains : forall m x0 y0 x1 y1 p,
  x0 <= fst p <= x1 -> y0 <= snd p <= y1 ->
  let '(u0, v0, u1, v1) := rect_transform m x0 y0 x1 y1 in
  u0 <= fst (mdot m p) <= u1 /\ v0 <= snd (mdot m p) <= v1.
Proof. exact rect_transform_contains. Qed.
Print Assumptions C07_rect_transform_contains.

(** C09 — faithful model of Path.Reverse (path.go) on the structural path of PathEnc/Enc.v.
    The Go loop walks the records from the back; for the record being processed
      [e]      = end point of the PREVIOUS record (Point{} = (0,0) for the very first record): where the reversed
                 segment ends,
      [start]  = the [e] of the iteration before (end point of the record being processed),
      [first]  = where the current reversed subpath began (target of its Close),
      [closed] = a Close has been seen and its subpath is not finished yet. *)
From Coq Require Import ZArith QArith List Bool.
From CV Require Import PathEnc.Enc.
Import ListNotations.
Open Scope Q_scope.

(** toArcFlags / fromArcFlags(large, !sweep) on the stored flag value *)
Definition flip_sweep (fl : Q) : Q :=
  let large := Qeq_bool fl 1 || Qeq_bool fl 3 in
  let sweep := Qeq_bool fl 2 || Qeq_bool fl 3 in
  (if large then 1 else 0) + (if negb sweep then 2 else 0).

Definition prev_end (r : list seg) : pt := match r with [] => (0, 0) | s :: _ => seg_end s end.
Definition at0 (r : list seg) : bool := match r with [] => true | _ => false end.
Definition prev_is_move (r : list seg) : bool := match r with SM _ :: _ => true | _ => false end.
Definition close_if (closed : bool) (first : pt) : list seg := if closed then [SZ first] else [].

(** [rs] = the records still to process, LAST record first *)
Fixpoint rev_go (rs : list seg) (closed : bool) (first start : pt) : list seg :=
  match rs with
  | [] => close_if closed first
  | s :: r =>
    let e := prev_end r in
    match s with
    | SM _ => close_if closed first ++ (if at0 r then [] else [SM e])
              ++ rev_go r false (if at0 r then first else e) e
    | SZ _ => (if pt_eqb start e then [] else [SL e]) ++ rev_go r true first e
    | SL _ => if closed && (at0 r || prev_is_move r) then SZ first :: rev_go r false first e
              else SL e :: rev_go r closed first e
    | SQ c _ => SQ c e :: rev_go r closed first e
    | SC c1 c2 _ => SC c2 c1 e :: rev_go r closed first e
    | SA rx ry phi fl _ => SA rx ry phi (flip_sweep fl) e :: rev_go r closed first e
    end
  end.

Definition reverse (p : list seg) : list seg :=
  match rev p with
  | [] => []
  | s :: _ => let e := seg_end s in SM e :: rev_go (rev p) false e e
  end.

(** what Path.Closed() reads: the last record is a Close *)
Definition closed_last (p : list seg) : bool := match rev p with SZ _ :: _ => true | _ => false end.

(** cache_transparent_pdf and paint_order for the PDF page writer. *)
From Coq Require Import QArith ZArith List Bool Lia.
From CV Require Import Render.Sem Render.GState.
Import ListNotations.
Open Scope Q_scope.

Definition normal (q : Q) : Prop := Qred q = q.
Lemma normal_Qred : forall q, normal (Qred q).
Proof. intros q. unfold normal. apply Qred_complete. apply Qred_correct. Qed.
Lemma qeqb_normal : forall a b, qeqb a b = true -> normal a -> normal b -> a = b.
Proof.
  intros a b H Ha Hb. unfold qeqb in H. apply Qeq_bool_iff in H. apply Qred_complete in H.
  unfold normal in *. rewrite Ha, Hb in H. exact H.
Qed.
Lemma qlist_eqb_normal : forall a b, qlist_eqb a b = true -> Forall normal a -> Forall normal b -> a = b.
Proof.
  induction a as [|x a IH]; intros [|y b] H Ha Hb; cbn in H; try discriminate; [reflexivity|].
  apply andb_prop in H. destruct H as [H1 H2]. inversion Ha; inversion Hb; subst.
  f_equal; [apply qeqb_normal; assumption|apply IH; assumption].
Qed.

Definition dash_ok (l : list Q) : Prop := l = [0] \/ exists ds ph, ds <> [] /\ l = ds ++ [ph].
Record Norm (w : pdfw) : Prop := mkNorm {
  n_al : normal (walpha w); n_lw : normal (wlw w); n_ml : normal (wml w);
  n_ds : Forall normal (wdash w); n_ok : dash_ok (wdash w) }.

Lemma norm_init : Norm pdfw_init.
Proof. constructor; cbn; try reflexivity. - repeat constructor. - left. reflexivity. Qed.

(** ---------- interpreter with final state ---------- *)
Fixpoint run (ts : list ptok) (g : pdfg) : list pop * pdfg :=
  match ts with
  | [] => ([], g)
  | t :: r => let '(o, g1) := pdf_step t g in let '(o2, g2) := run r g1 in (o ++ o2, g2)
  end.
Lemma exec_run : forall ts g, exec_pdf ts g = fst (run ts g).
Proof.
  induction ts as [|t r IH]; intros g; [reflexivity|].
  cbn [exec_pdf run]. destruct (pdf_step t g) as [o g1]. rewrite IH. destruct (run r g1). reflexivity.
Qed.
Lemma run_app : forall t1 t2 g, run (t1 ++ t2) g =
  let '(o1, g1) := run t1 g in let '(o2, g2) := run t2 g1 in (o1 ++ o2, g2).
Proof.
  induction t1 as [|t r IH]; intros t2 g.
  - cbn [app run]. destruct (run t2 g). reflexivity.
  - cbn [app run]. destruct (pdf_step t g) as [o g1]. rewrite IH.
    destruct (run r g1) as [o1 g2]. destruct (run t2 g2) as [o2 g3]. rewrite app_assoc. reflexivity.
Qed.

(** the interpreter state the writer believes in *)
Definition abs (w : pdfw) (pa : geo) : pdfg :=
  mkPdfg (paint_col (wfill w)) (paint_col (wstroke w)) (walpha w) (wlw w) (wcap w) (wjoin w) (wml w)
         (removelast (wdash w)) (last (wdash w) 0) pa.
Lemma abs_init : abs pdfw_init [] = pdfg_init.
Proof. reflexivity. Qed.

Definition Sim (f : pdfw -> list ptok * pdfw) : Prop :=
  forall w pa, run (fst (f w)) (abs w pa) = ([], abs (snd (f w)) pa).

Lemma sim_seq2 : forall f g, Sim f -> Sim g -> Sim (f ;; g).
Proof.
  intros f g Hf Hg w pa. unfold seq2. specialize (Hf w pa). destruct (f w) as [t1 w1]. cbn [fst snd] in Hf.
  specialize (Hg w1 pa). destruct (g w1) as [t2 w2]. cbn [fst snd] in *.
  rewrite run_app, Hf, Hg. reflexivity.
Qed.

Lemma sim_alpha : forall a, Sim (set_alpha a).
Proof. intros a w pa. unfold set_alpha. destruct (qeqb a (walpha w)); reflexivity. Qed.

Lemma gray_col : forall c, is_gray c = true ->
  let '(r, g, b) := paint_col (PColor c) in r = g /\ r = b.
Proof.
  intros [[[r g] b] a] H. unfold is_gray in H. apply andb_prop in H. destruct H as [H1 H2].
  apply Z.eqb_eq in H1. apply Z.eqb_eq in H2. subst. cbn [paint_col]. split; reflexivity.
Qed.

Lemma sim_fill : forall fx p, Sim (set_fill fx p).
Proof.
  intros fx p w pa. unfold set_fill. destruct (paint_eqb p (wfill w)).
  - destruct fx; [|reflexivity]. destruct p; try reflexivity; apply sim_alpha.
  - destruct p as [|c|id]; [reflexivity| |destruct fx; [unfold set_alpha; destruct (qeqb 1 (walpha w)); reflexivity|reflexivity]].
    pose proof (gray_col c) as Hg. unfold set_alpha.
    destruct (paint_col (PColor c)) as [[r g] b] eqn:Ec.
    destruct (is_gray c) eqn:Eg; destruct (qeqb (paint_alpha (PColor c)) (walpha w)) eqn:Ea;
      cbn [fst snd app run pdf_step]; unfold abs, with_fill;
      cbn [wfill wstroke walpha wlw wcap wjoin wml wdash gfc gsc gal glw gcap gjoin gml gds gph gpath app];
      rewrite ?Ec; try (destruct (Hg eq_refl) as [-> ->]); reflexivity.
Qed.

Lemma sim_stroke : forall fx p, Sim (set_stroke fx p).
Proof.
  intros fx p w pa. unfold set_stroke. destruct (paint_eqb p (wstroke w)).
  - destruct fx; [|reflexivity]. destruct p; try reflexivity; apply sim_alpha.
  - destruct p as [|c|id]; [reflexivity| |destruct fx; [unfold set_alpha; destruct (qeqb 1 (walpha w)); reflexivity|reflexivity]].
    pose proof (gray_col c) as Hg. unfold set_alpha.
    destruct (paint_col (PColor c)) as [[r g] b] eqn:Ec.
    destruct (is_gray c) eqn:Eg; destruct (qeqb (paint_alpha (PColor c)) (walpha w)) eqn:Ea;
      cbn [fst snd app run pdf_step]; unfold abs, with_stroke;
      cbn [wfill wstroke walpha wlw wcap wjoin wml wdash gfc gsc gal glw gcap gjoin gml gds gph gpath app];
      rewrite ?Ec; try (destruct (Hg eq_refl) as [-> ->]); reflexivity.
Qed.

Lemma sim_lw : forall x, Sim (set_lw x).
Proof. intros x w pa. unfold set_lw. destruct (qeqb x (wlw w)); reflexivity. Qed.
Lemma sim_cap : forall c, Sim (set_cap c).
Proof. intros c w pa. unfold set_cap. destruct (c =? wcap w)%Z eqn:E; [reflexivity|reflexivity]. Qed.
Lemma sim_join : forall j ml, Sim (set_join j ml).
Proof.
  intros j ml w pa. unfold set_join. destruct ml as [l|]; cbn [wml wjoin].
  - destruct (j =? wjoin w)%Z eqn:E1; destruct ((j =? 0)%Z && negb (qeqb l (wml w))) eqn:E2;
      try reflexivity; apply Z.eqb_eq in E1; subst j; unfold abs; destruct w; reflexivity.
  - destruct (j =? wjoin w)%Z eqn:E1; try reflexivity. apply Z.eqb_eq in E1. subst j. unfold abs. destruct w; reflexivity.
Qed.
Lemma sim_dashes : forall ph ds, Sim (set_dashes ph ds).
Proof.
  intros ph ds w pa. unfold set_dashes.
  set (ds' := if Nat.odd (length ds) then ds ++ ds else ds).
  destruct (qlist_eqb (ds' ++ [norm_phase ph ds']) (wdash w)); [reflexivity|].
  destruct ds' as [|x r] eqn:E; [reflexivity|].
  cbn [fst snd run pdf_step]. unfold abs.
  cbn [wfill wstroke walpha wlw wcap wjoin wml wdash gfc gsc gal glw gcap gjoin gml gds gph gpath].
  rewrite removelast_last, last_last. cbn [app]. reflexivity.
Qed.
Lemma sim_emit_nil : Sim (emit []).
Proof. intros w pa. reflexivity. Qed.

(** ---------- what the cache holds after a setter: the request, whether or not anything was written ---------- *)
Lemma alpha_char : forall a w, Norm w -> normal a ->
  snd (set_alpha a w) = mkPdfw (wfill w) (wstroke w) a (wlw w) (wcap w) (wjoin w) (wml w) (wdash w).
Proof.
  intros a w N Ha. unfold set_alpha. destruct (qeqb a (walpha w)) eqn:E; [|reflexivity].
  apply qeqb_normal in E; [|exact Ha|apply (n_al w N)]. subst a. destruct w; reflexivity.
Qed.

Lemma rgba_eqb_eq : forall a b, rgba_eqb a b = true -> a = b.
Proof.
  intros [[[a1 a2] a3] a4] [[[b1 b2] b3] b4] H. unfold rgba_eqb in H.
  repeat (apply andb_prop in H; destruct H as [H ?]).
  repeat match goal with H : (_ =? _)%Z = true |- _ => apply Z.eqb_eq in H end. subst. reflexivity.
Qed.
Lemma paint_eqb_color : forall c q, paint_eqb (PColor c) q = true -> q = PColor c.
Proof.
  intros c [|c'|id] H; cbn [paint_eqb] in H; try discriminate.
  apply andb_prop in H. destruct H as [_ H]. apply rgba_eqb_eq in H. subst. reflexivity.
Qed.

Lemma normal_alpha : forall p, normal (paint_alpha p).
Proof. intros [|[[[r g] b] a]|id]; cbn [paint_alpha]; try reflexivity. apply normal_Qred. Qed.

Lemma fill_char : forall c w, Norm w ->
  snd (set_fill true (PColor c) w) =
  mkPdfw (PColor c) (wstroke w) (paint_alpha (PColor c)) (wlw w) (wcap w) (wjoin w) (wml w) (wdash w).
Proof.
  intros c w N. unfold set_fill. destruct (paint_eqb (PColor c) (wfill w)) eqn:E.
  - rewrite (alpha_char _ w N (normal_alpha _)). apply paint_eqb_color in E. rewrite E. reflexivity.
  - destruct (paint_col (PColor c)) as [[r g] b].
    pose proof (alpha_char (paint_alpha (PColor c)) w N (normal_alpha _)) as H.
    destruct (set_alpha (paint_alpha (PColor c)) w) as [t2 w2]. cbn [snd] in *. subst w2. reflexivity.
Qed.
Lemma stroke_char : forall c w, Norm w ->
  snd (set_stroke true (PColor c) w) =
  mkPdfw (wfill w) (PColor c) (paint_alpha (PColor c)) (wlw w) (wcap w) (wjoin w) (wml w) (wdash w).
Proof.
  intros c w N. unfold set_stroke. destruct (paint_eqb (PColor c) (wstroke w)) eqn:E.
  - rewrite (alpha_char _ w N (normal_alpha _)). apply paint_eqb_color in E. rewrite E. reflexivity.
  - destruct (paint_col (PColor c)) as [[r g] b].
    pose proof (alpha_char (paint_alpha (PColor c)) w N (normal_alpha _)) as H.
    destruct (set_alpha (paint_alpha (PColor c)) w) as [t2 w2]. cbn [snd] in *. subst w2. reflexivity.
Qed.
Lemma lw_char : forall x w, Norm w -> normal x ->
  snd (set_lw x w) = mkPdfw (wfill w) (wstroke w) (walpha w) x (wcap w) (wjoin w) (wml w) (wdash w).
Proof.
  intros x w N Hx. unfold set_lw. destruct (qeqb x (wlw w)) eqn:E; [|reflexivity].
  apply qeqb_normal in E; [|exact Hx|apply (n_lw w N)]. subst x. destruct w; reflexivity.
Qed.
Lemma cap_char : forall c w,
  snd (set_cap c w) = mkPdfw (wfill w) (wstroke w) (walpha w) (wlw w) c (wjoin w) (wml w) (wdash w).
Proof.
  intros c w. unfold set_cap. destruct (c =? wcap w)%Z eqn:E; [|reflexivity].
  apply Z.eqb_eq in E. subst c. destruct w; reflexivity.
Qed.
Definition ml_after (j : Z) (ml : option Q) (old : Q) : Q :=
  match ml with Some l => if (j =? 0)%Z then l else old | None => old end.
Lemma join_char : forall j ml w, Norm w -> (forall l, ml = Some l -> normal l) ->
  snd (set_join j ml w) = mkPdfw (wfill w) (wstroke w) (walpha w) (wlw w) (wcap w) j (ml_after j ml (wml w)) (wdash w).
Proof.
  intros j ml w N Hl. unfold set_join, ml_after. destruct ml as [l|]; cbn [wml wjoin wfill wstroke walpha wlw wcap wdash].
  - destruct (j =? 0)%Z eqn:E0; cbn [andb].
    + destruct (qeqb l (wml w)) eqn:E; cbn [negb]; destruct (j =? wjoin w)%Z; cbn [snd]; try reflexivity;
        apply qeqb_normal in E; try (apply (n_ml w N)); try (apply Hl; reflexivity); subst l; reflexivity.
    + destruct (j =? wjoin w)%Z; reflexivity.
  - destruct (j =? wjoin w)%Z; reflexivity.
Qed.

Definition dash_after (ph : Q) (ds : list Q) : list Q :=
  let ds' := if Nat.odd (length ds) then ds ++ ds else ds in
  match ds' with [] => [0] | _ => ds' ++ [norm_phase ph ds'] end.
Lemma normal_norm_phase : forall ph ds, normal ph -> normal (norm_phase ph ds).
Proof.
  intros ph ds H. unfold norm_phase. destruct (Qle_bool 0 ph); [exact H|].
  destruct (Qle_bool (qsum ds) 0); [reflexivity|apply normal_Qred].
Qed.
Lemma dashes_char : forall ph ds w, Norm w -> normal ph -> Forall normal ds ->
  snd (set_dashes ph ds w) = mkPdfw (wfill w) (wstroke w) (walpha w) (wlw w) (wcap w) (wjoin w) (wml w) (dash_after ph ds).
Proof.
  intros ph ds w N Hp Hd. unfold set_dashes, dash_after.
  set (ds' := if Nat.odd (length ds) then ds ++ ds else ds).
  assert (Hd' : Forall normal ds') by (unfold ds'; destruct (Nat.odd (length ds)); [apply Forall_app; split|]; assumption).
  destruct (qlist_eqb (ds' ++ [norm_phase ph ds']) (wdash w)) eqn:E.
  - apply qlist_eqb_normal in E.
    + destruct ds' as [|x r] eqn:Ed.
      * cbn [app] in E. destruct (n_ok w N) as [H0|(d2 & p2 & Hne & H2)].
        -- cbn [snd]. clear E. destruct w as [f s a lw c j ml dsh]. cbn in H0. subst dsh. reflexivity.
        -- rewrite H2 in E. destruct d2 as [|y d2]; [congruence|]. destruct d2; cbn in E; discriminate.
      * cbn [snd]. rewrite E. destruct w; reflexivity.
    + apply Forall_app. split; [exact Hd'|]. constructor; [apply normal_norm_phase; exact Hp|constructor].
    + apply (n_ds w N).
  - destruct ds' as [|x r]; reflexivity.
Qed.

(** Norm is preserved by construction of the characterised states *)
Lemma norm_mk : forall f s a lw c j ml ds,
  normal a -> normal lw -> normal ml -> Forall normal ds -> dash_ok ds -> Norm (mkPdfw f s a lw c j ml ds).
Proof. intros. constructor; assumption. Qed.

Lemma dash_after_ok : forall ph ds, normal ph -> Forall normal ds ->
  Forall normal (dash_after ph ds) /\ dash_ok (dash_after ph ds).
Proof.
  intros ph ds Hp Hd. unfold dash_after.
  set (ds' := if Nat.odd (length ds) then ds ++ ds else ds).
  assert (Hd' : Forall normal ds') by (unfold ds'; destruct (Nat.odd (length ds)); [apply Forall_app; split|]; assumption).
  destruct ds' as [|x r] eqn:E.
  - split; [repeat constructor|left; reflexivity].
  - split.
    + apply Forall_app. split; [exact Hd'|]. constructor; [apply normal_norm_phase; exact Hp|constructor].
    + right. exists (x :: r), (norm_phase ph (x :: r)). split; [discriminate|reflexivity].
Qed.

(** ---------- composition with painting operators ---------- *)
Definition SimP (f : pdfw -> list ptok * pdfw) (P : pdfw -> list pop) : Prop :=
  forall w, run (fst (f w)) (abs w []) = (P w, abs (snd (f w)) []).

Lemma simp_of_sim : forall f, Sim f -> SimP f (fun _ => []).
Proof. intros f H w. apply H. Qed.
Lemma simp_seq : forall f g P Q, SimP f P -> SimP g Q -> SimP (f ;; g) (fun w => P w ++ Q (snd (f w))).
Proof.
  intros f g P Q Hf Hg w. unfold seq2. specialize (Hf w). destruct (f w) as [t1 w1]. cbn [fst snd] in *.
  specialize (Hg w1). destruct (g w1) as [t2 w2]. cbn [fst snd] in *. rewrite run_app, Hf, Hg. reflexivity.
Qed.
Lemma simp_paint : forall f data op, Sim f ->
  SimP (f ;; emit [Tpath data; Tpaint op]) (fun w => pdf_paint_ops op (abs (snd (f w)) data)).
Proof.
  intros f data op Hf w. unfold seq2, emit. specialize (Hf w []). destruct (f w) as [t1 w1]. cbn [fst snd] in *.
  rewrite run_app, Hf. cbn [run pdf_step app]. rewrite app_nil_r. reflexivity.
Qed.
Lemma snd_seq2 : forall (f g : pdfw -> list ptok * pdfw) w, snd ((f ;; g) w) = snd (g (snd (f w))).
Proof. intros f g w. unfold seq2. destruct (f w) as [t1 w1]. cbn [snd]. destruct (g w1). reflexivity. Qed.
Lemma snd_emit : forall (t : list ptok) (w : pdfw), snd (emit t w) = w.
Proof. reflexivity. Qed.

Definition okpaint (p : paint) : Prop := match p with PGrad _ => False | _ => True end.
Definition okdraw (d : draw) : Prop := okpaint (sFill (dS d)) /\ okpaint (sStroke (dS d)).

Lemma has_color : forall p, paint_has p = true -> okpaint p -> exists c, p = PColor c.
Proof. intros [|c|id] H O; cbn in *; try discriminate; try contradiction. exists c. reflexivity. Qed.

Opaque Qred.
Lemma native_normal : forall d w c j ml off ds, native_stroke d = Some (w, c, j, ml, off, ds) ->
  normal w /\ normal off /\ Forall normal ds /\ (forall l, ml = Some l -> normal l).
Proof.
  intros d w c j ml off ds H. unfold native_stroke in H.
  destruct (join_native (sJoin (dS d))) as [[j0 ml0]|]; [|discriminate].
  destruct (dSim d); [|discriminate]. unfold scale_dash in H. injection H; intros; subst. clear H.
  split; [apply normal_Qred|]. split; [apply normal_Qred|]. split.
  - apply Forall_forall. intros x Hx. apply in_map_iff in Hx. destruct Hx as (y & <- & _). apply normal_Qred.
  - intros l Hl. destruct ml0; inversion Hl. apply normal_Qred.
Qed.
Transparent Qred.

Lemma stroke_state_ok : forall d c w wd cp j ml off ds, Norm w -> sStroke (dS d) = PColor c ->
  normal wd -> normal off -> Forall normal ds -> (forall l, ml = Some l -> normal l) ->
  snd (pdf_stroke_state true d (wd, cp, j, ml, off, ds) w) =
    mkPdfw (wfill w) (PColor c) (paint_alpha (PColor c)) wd cp j (ml_after j ml (wml w)) (dash_after off ds)
  /\ Norm (snd (pdf_stroke_state true d (wd, cp, j, ml, off, ds) w)).
Proof.
  intros d c w wd cp j ml off ds N Hs Hw Ho Hd Hm. unfold pdf_stroke_state. rewrite Hs.
  rewrite !snd_seq2.
  rewrite (stroke_char c w N).
  set (w1 := mkPdfw (wfill w) (PColor c) (paint_alpha (PColor c)) (wlw w) (wcap w) (wjoin w) (wml w) (wdash w)).
  assert (N1 : Norm w1) by (apply norm_mk; [apply normal_alpha|apply (n_lw w N)|apply (n_ml w N)|apply (n_ds w N)|apply (n_ok w N)]).
  rewrite (lw_char wd w1 N1 Hw). cbn [wfill wstroke walpha wlw wcap wjoin wml wdash w1].
  rewrite cap_char. cbn [wfill wstroke walpha wlw wcap wjoin wml wdash].
  set (w3 := mkPdfw (wfill w) (PColor c) (paint_alpha (PColor c)) wd cp (wjoin w) (wml w) (wdash w)).
  assert (N3 : Norm w3) by (apply norm_mk; [apply normal_alpha|exact Hw|apply (n_ml w N)|apply (n_ds w N)|apply (n_ok w N)]).
  rewrite (join_char j ml w3 N3 Hm). cbn [wfill wstroke walpha wlw wcap wjoin wml wdash w3].
  set (w4 := mkPdfw (wfill w) (PColor c) (paint_alpha (PColor c)) wd cp j (ml_after j ml (wml w)) (wdash w)).
  assert (Hml : normal (ml_after j ml (wml w))).
  { unfold ml_after. destruct ml as [l|]; [|apply (n_ml w N)]. destruct (j =? 0)%Z; [apply Hm; reflexivity|apply (n_ml w N)]. }
  assert (N4 : Norm w4) by (apply norm_mk; [apply normal_alpha|exact Hw|exact Hml|apply (n_ds w N)|apply (n_ok w N)]).
  rewrite (dashes_char off ds w4 N4 Ho Hd). cbn [wfill wstroke walpha wlw wcap wjoin wml wdash w4].
  split; [reflexivity|]. destruct (dash_after_ok off ds Ho Hd) as [D1 D2].
  apply norm_mk; [apply normal_alpha|exact Hw|exact Hml|exact D1|exact D2].
Qed.

Lemma sim_stroke_state : forall d ns, Sim (pdf_stroke_state true d ns).
Proof.
  intros d [[[[[wd cp] j] ml] off] ds]. unfold pdf_stroke_state.
  repeat apply sim_seq2; [apply sim_stroke|apply sim_lw|apply sim_cap|apply sim_join|apply sim_dashes].
Qed.

Lemma dash_abs : forall off ds,
  (removelast (dash_after off ds), last (dash_after off ds) 0) = pdf_dash_spec off ds.
Proof.
  intros off ds. unfold dash_after, pdf_dash_spec.
  destruct (if Nat.odd (length ds) then ds ++ ds else ds) as [|x r]; [reflexivity|].
  rewrite removelast_last, last_last. reflexivity.
Qed.

Lemma native_j0 : forall d w c j ml off ds, native_stroke d = Some (w, c, j, ml, off, ds) ->
  (j =? 0)%Z = true -> exists l, ml = Some l.
Proof.
  intros d w c j ml off ds H Hj. unfold native_stroke in H.
  destruct (sJoin (dS d)) as [| |g lim|g lim]; cbn [join_native] in H;
    try (destruct (dSim d); [|discriminate]; unfold scale_dash in H; injection H; intros; subst; discriminate).
  - destruct g; try discriminate. destruct lim as [l|]; [|discriminate].
    destruct (dSim d); [|discriminate]. unfold scale_dash in H. injection H; intros; subst. eexists. reflexivity.
  - discriminate.
Qed.

Definition fill_part (c : rgba) (data : geo) (eo : bool) :=
  set_fill true (PColor c) ;; emit [Tpath data; Tpaint (star true false eo 0)].

Lemma fill_part_ok : forall c data eo w, Norm w ->
  let w' := mkPdfw (PColor c) (wstroke w) (paint_alpha (PColor c)) (wlw w) (wcap w) (wjoin w) (wml w) (wdash w) in
  run (fst (fill_part c data eo w)) (abs w []) =
    ([mkPop (KFill eo) data (paint_col (PColor c)) (paint_alpha (PColor c))], abs w' [])
  /\ snd (fill_part c data eo w) = w' /\ Norm w'.
Proof.
  intros c data eo w N w'. unfold fill_part.
  pose proof (simp_paint (set_fill true (PColor c)) data (star true false eo 0) (sim_fill true (PColor c)) w) as H.
  rewrite snd_seq2, snd_emit in H |- *. rewrite (fill_char c w N) in H |- *. fold w' in H |- *.
  split; [|split; [reflexivity|]].
  - rewrite H. f_equal. destruct eo; reflexivity.
  - apply norm_mk; [apply normal_alpha|apply (n_lw w N)|apply (n_ml w N)|apply (n_ds w N)|apply (n_ok w N)].
Qed.

Lemma stroke_pop : forall closed w0 c wd cp j ml off ds data,
  ((j =? 0)%Z = true -> exists l, ml = Some l) ->
  g_stroke_op closed (abs (mkPdfw (wfill w0) (PColor c) (paint_alpha (PColor c)) wd cp j (ml_after j ml (wml w0)) (dash_after off ds)) data)
  = let '(ds', ph') := pdf_dash_spec off ds in
    mkPop (KStroke closed wd cp j (if (j =? 0)%Z then match ml with Some l => l | None => 0 end else 0) ds' ph') data
          (paint_col (PColor c)) (paint_alpha (PColor c)).
Proof.
  intros closed w0 c wd cp j ml off ds data Hj. unfold g_stroke_op, abs.
  cbn [wfill wstroke walpha wlw wcap wjoin wml wdash gfc gsc gal glw gcap gjoin gml gds gph gpath].
  pose proof (dash_abs off ds) as Hd. destruct (pdf_dash_spec off ds) as [ds' ph']. injection Hd as -> ->.
  f_equal. f_equal. unfold ml_after. destruct (j =? 0)%Z eqn:E; [|reflexivity].
  destruct (Hj eq_refl) as [l ->]. reflexivity.
Qed.

Lemma pdf_draw_ok : forall d w, Norm w -> okdraw d ->
  run (fst (pdf_draw true d w)) (abs w []) = (pdf_spec d, abs (snd (pdf_draw true d w)) [])
  /\ Norm (snd (pdf_draw true d w)).
Proof.
  intros d w N [Of Os]. unfold pdf_draw, pdf_spec, spec_fill.
  destruct (strip_close (dGeo d)) as [data closed].
  destruct (has_stroke (dS d)) eqn:Hs; cbn [negb].
  - (* stroke requested *)
    assert (Hs' : paint_has (sStroke (dS d)) = true) by (unfold has_stroke in Hs; apply andb_prop in Hs; apply Hs).
    destruct (has_color _ Hs' Os) as [cs Ecs].
    destruct (native_stroke d) as [[[[[[wd cp] j] ml] off] ds]|] eqn:En.
    + destruct (native_normal _ _ _ _ _ _ _ En) as (Hw & Ho & Hd & Hm).
      pose proof (native_j0 _ _ _ _ _ _ _ En) as Hj0.
      destruct (has_fill (dS d)) eqn:Hf; cbn [negb].
      * destruct (has_color _ Hf Of) as [cf Ecf]. rewrite Ecf, Ecs.
        destruct cf as [[[fr fg] fb] fa]. destruct cs as [[[sr sg] sb] sa].
        destruct (fa =? sa)%Z eqn:Ea.
        -- (* B / b *)
           apply Z.eqb_eq in Ea. subst sa.
           set (cf := (fr, fg, fb, fa)). set (cs := (sr, sg, sb, fa)).
           set (op := star true false (sEvenOdd (dS d)) (if closed then 6 else 4)%Z).
           pose proof (simp_seq _ _ _ _ (simp_of_sim _ (sim_fill true (PColor cf)))
                         (simp_paint _ data op (sim_stroke_state d (wd, cp, j, ml, off, ds))) w) as H.
           cbn beta in H. rewrite H. clear H.
           rewrite !snd_seq2, snd_emit. rewrite (fill_char cf w N).
           set (w1 := mkPdfw (PColor cf) (wstroke w) (paint_alpha (PColor cf)) (wlw w) (wcap w) (wjoin w) (wml w) (wdash w)).
           assert (N1 : Norm w1) by (apply norm_mk; [apply normal_alpha|apply (n_lw w N)|apply (n_ml w N)|apply (n_ds w N)|apply (n_ok w N)]).
           destruct (stroke_state_ok d cs w1 wd cp j ml off ds N1 Ecs Hw Ho Hd Hm) as [Hc Nc].
           rewrite Hc. split; [|rewrite <- Hc; exact Nc]. f_equal. cbn [app].
           pose proof (stroke_pop closed w1 cs wd cp j ml off ds data Hj0) as Hp.
           destruct (pdf_dash_spec off ds) as [ds' ph'].
           assert (Hal : paint_alpha (PColor cs) = paint_alpha (PColor cf)) by reflexivity.
           unfold op, star. destruct (sEvenOdd (dS d)); destruct closed; cbn [pdf_paint_ops Z.add Pos.add Pos.succ];
             rewrite Hp; unfold g_fill_op, abs; cbn [wfill wstroke walpha wlw wcap wjoin wml wdash gfc gsc gal glw gcap gjoin gml gds gph gpath w1];
             rewrite Hal; reflexivity.
        -- (* f then S / s *)
           set (cf := (fr, fg, fb, fa)). set (cs := (sr, sg, sb, sa)).
           set (sop := star true true (sEvenOdd (dS d)) (if closed then 3 else 2)%Z).
           pose proof (simp_seq _ _ _ _ (simp_paint _ data (star true false (sEvenOdd (dS d)) 0) (sim_fill true (PColor cf)))
                         (simp_paint _ data sop (sim_stroke_state d (wd, cp, j, ml, off, ds))) w) as H.
           cbn beta in H. rewrite H. clear H.
           rewrite !snd_seq2, !snd_emit. rewrite (fill_char cf w N).
           set (w1 := mkPdfw (PColor cf) (wstroke w) (paint_alpha (PColor cf)) (wlw w) (wcap w) (wjoin w) (wml w) (wdash w)).
           assert (N1 : Norm w1) by (apply norm_mk; [apply normal_alpha|apply (n_lw w N)|apply (n_ml w N)|apply (n_ds w N)|apply (n_ok w N)]).
           destruct (stroke_state_ok d cs w1 wd cp j ml off ds N1 Ecs Hw Ho Hd Hm) as [Hc Nc].
           rewrite Hc. split; [|rewrite <- Hc; exact Nc]. f_equal.
           pose proof (stroke_pop closed w1 cs wd cp j ml off ds data Hj0) as Hp.
           destruct (pdf_dash_spec off ds) as [ds' ph'].
           unfold sop, star. destruct (sEvenOdd (dS d)); destruct closed; cbn [pdf_paint_ops app]; rewrite Hp; reflexivity.
      * (* stroke only *)
        rewrite Ecs.
        set (sop := star true true (sEvenOdd (dS d)) (if closed then 3 else 2)%Z).
        pose proof (simp_paint _ data sop (sim_stroke_state d (wd, cp, j, ml, off, ds)) w) as H.
        rewrite H. clear H. rewrite !snd_seq2, snd_emit.
        destruct (stroke_state_ok d cs w wd cp j ml off ds N Ecs Hw Ho Hd Hm) as [Hc Nc].
        rewrite Hc. split; [|rewrite <- Hc; exact Nc]. f_equal.
        pose proof (stroke_pop closed w cs wd cp j ml off ds data Hj0) as Hp.
        destruct (pdf_dash_spec off ds) as [ds' ph'].
        unfold sop, star. destruct (sEvenOdd (dS d)); destruct closed; cbn [pdf_paint_ops app]; rewrite Hp; reflexivity.
    + (* outline fallback *)
      rewrite Ecs.
      destruct (has_fill (dS d)) eqn:Hf.
      * destruct (has_color _ Hf Of) as [cf Ecf]. rewrite Ecf.
        pose proof (simp_seq _ _ _ _ (simp_paint _ data (star true false (sEvenOdd (dS d)) 0) (sim_fill true (PColor cf)))
                      (simp_paint _ (dOutline d) 0%Z (sim_fill true (PColor cs))) w) as H.
        cbn beta in H. rewrite H. clear H.
        rewrite !snd_seq2, !snd_emit. rewrite (fill_char cf w N).
        set (w1 := mkPdfw (PColor cf) (wstroke w) (paint_alpha (PColor cf)) (wlw w) (wcap w) (wjoin w) (wml w) (wdash w)).
        assert (N1 : Norm w1) by (apply norm_mk; [apply normal_alpha|apply (n_lw w N)|apply (n_ml w N)|apply (n_ds w N)|apply (n_ok w N)]).
        rewrite (fill_char cs w1 N1). cbn [wfill wstroke walpha wlw wcap wjoin wml wdash w1]. split.
        -- f_equal. destruct (sEvenOdd (dS d)); reflexivity.
        -- apply norm_mk; [apply normal_alpha|apply (n_lw w N)|apply (n_ml w N)|apply (n_ds w N)|apply (n_ok w N)].
      * pose proof (simp_seq _ _ _ _ (simp_of_sim _ sim_emit_nil)
                      (simp_paint _ (dOutline d) 0%Z (sim_fill true (PColor cs))) w) as H.
        cbn beta in H. rewrite H. clear H.
        rewrite !snd_seq2, !snd_emit. rewrite (fill_char cs w N). split; [reflexivity|].
        apply norm_mk; [apply normal_alpha|apply (n_lw w N)|apply (n_ml w N)|apply (n_ds w N)|apply (n_ok w N)].
  - (* no stroke *)
    destruct (has_fill (dS d)) eqn:Hf.
    + destruct (has_color _ Hf Of) as [cf Ecf]. rewrite Ecf.
      destruct (fill_part_ok cf data (sEvenOdd (dS d)) w N) as (H1 & H2 & H3).
      unfold fill_part in *. rewrite H1, H2. split; [reflexivity|exact H3].
    + split; [reflexivity|exact N].
Qed.

Lemma exec_app : forall t1 t2 g, exec_pdf (t1 ++ t2) g = fst (run t1 g) ++ exec_pdf t2 (snd (run t1 g)).
Proof.
  intros t1 t2 g. rewrite exec_run, run_app. destruct (run t1 g) as [o1 g1]. cbn [fst snd].
  rewrite exec_run. destruct (run t2 g1). reflexivity.
Qed.

Lemma pdf_write_ok : forall ds w, Norm w -> Forall okdraw ds ->
  exec_pdf (pdf_write true ds w) (abs w []) = flat_map pdf_spec ds.
Proof.
  induction ds as [|d r IH]; intros w N H; [reflexivity|].
  inversion H as [|? ? Hd Hr]; subst. cbn [pdf_write flat_map].
  destruct (pdf_draw_ok d w N Hd) as [H1 N1].
  destruct (pdf_draw true d w) as [t w1]. cbn [fst snd] in *.
  rewrite exec_app, H1. cbn [fst snd]. f_equal. apply IH; assumption.
Qed.

(** cache_transparent_pdf (which also gives paint_order): for EVERY sequence of styled draws with uniform-colour paints,
    interpreting what the (fixed) page writer emits from the PDF initial graphics state yields, in order, exactly the
    paint operations the draws ask for — every painting operator runs in a graphics state equal to the requested style,
    whatever the caches skipped. *)
Theorem cache_transparent_pdf : forall ds, Forall okdraw ds ->
  exec_pdf (pdf_write true ds pdfw_init) pdfg_init = flat_map pdf_spec ds.
Proof. intros ds H. rewrite <- abs_init. apply pdf_write_ok; [apply norm_init|exact H]. Qed.

(** the writer at the pinned commit: the alpha is one ExtGState shared by fill and stroke, but SetFill/SetStroke return
    early on an unchanged paint without restoring it: fill {100,0,0,128}; stroke opaque black (the initial stroke paint):
    the black stroke is painted with the stale alpha 128/255. *)
Definition mkd (s : style) : draw := mkDraw s true 1 [(0%Z, [0; 0]); (1%Z, [10; 0]); (1%Z, [10; 10])] [].
Definition st_fill (c : rgba) : style := mkStyle (PColor c) PNone 1 0 JBevel 0 [] false.
Definition st_stroke (c : rgba) (eo : bool) : style := mkStyle PNone (PColor c) 1 0 JBevel 0 [] eo.

Theorem cache_transparent_pdf_alpha_refuted : exists ds, Forall okdraw ds /\
  exec_pdf (pdf_write false ds pdfw_init) pdfg_init <> flat_map pdf_spec ds /\
  map palpha (exec_pdf (pdf_write false ds pdfw_init) pdfg_init) = [128 # 255; 128 # 255; 128 # 255] /\
  map palpha (flat_map pdf_spec ds) = [128 # 255; 1; 128 # 255].
Proof.
  exists [mkd (st_fill (100, 0, 0, 128)%Z); mkd (st_stroke (0, 0, 0, 255)%Z false); mkd (st_fill (100, 0, 0, 128)%Z)].
  split; [repeat constructor|]. split; [vm_compute; discriminate|]. split; vm_compute; reflexivity.
Qed.

(** and a stroke-only draw with the EvenOdd fill rule is written as "S*", which is not a PDF operator *)
Theorem pdf_stroke_evenodd_refuted : exists d, okdraw d /\
  map pk (exec_pdf (pdf_write false [d] pdfw_init) pdfg_init) = [KBad].
Proof. exists (mkd (st_stroke (0, 0, 0, 255)%Z true)). split; [repeat constructor|vm_compute; reflexivity]. Qed.

Example cache_example :
  pdf_write true [mkd (st_fill (100, 0, 0, 128)%Z); mkd (st_stroke (0, 0, 0, 255)%Z false); mkd (st_fill (100, 0, 0, 128)%Z)] pdfw_init
  = [Trg (25 # 32) 0 0; Tgs (128 # 255); Tpath [(0%Z, [0; 0]); (1%Z, [10; 0]); (1%Z, [10; 10])]; Tpaint 0;
     Tgs 1; Tj 2; Tpath [(0%Z, [0; 0]); (1%Z, [10; 0]); (1%Z, [10; 10])]; Tpaint 2;
     Tgs (128 # 255); Tpath [(0%Z, [0; 0]); (1%Z, [10; 0]); (1%Z, [10; 10])]; Tpaint 0].
Proof. vm_compute. reflexivity. Qed.

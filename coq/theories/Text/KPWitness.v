(** C17 — the refutation witness (DESIGN par. 4): a paragraph on which the faithful model of Linebreak
    (exact instance) loses a breaking that is feasible within the default Tolerance. *)
From Coq Require Import ZArith QArith List Bool.
From CV Require Import Base.Dy Text.KPSpec Text.KP Text.KPQ.
Import ListNotations.

Definition bx (w : Q) : item Q := mkItem TBox w 0 0 0 false.
Definition gl (w y z : Q) : item Q := mkItem TGlue w y z 0 false.
Definition pn (w p : Q) (f : bool) : item Q := mkItem TPen w 0 0 p f.

(** Box 50, Glue(10,5,3), Box 38, Penalty(w=10,p=50,flagged), Box 1, Glue(0,oo,0), Penalty(-oo) at width 100 *)
Definition witness_items : list (item Q) :=
  [bx 50; gl 10 5 3; bx 38; pn 10 50 true; bx 1; gl 0 1000 0; pn 0 (-1000) false].

Definition positions (bs : list (obrk (num:=Q))) : list nat := map (fun o => Z.to_nat (oPos o)) bs.

Lemma witness_refutes :
  (exists d, kp_opt QO default_params witness_items 100 (feas_tol QO (Some 2)) = Some (d, [6%nat])) /\
  (exists bs, linebreak QO default_params witness_items 100 0 60 = Done bs true /\
              positions bs = [1%nat; 6%nat] /\
              chain_eval QO default_params witness_items 100 (feas_tol QO (Some 2)) (rev (positions bs)) = None).
Proof.
  split.
  - eexists. vm_compute. reflexivity.
  - eexists. split; [vm_compute; reflexivity|]. split; vm_compute; reflexivity.
Qed.

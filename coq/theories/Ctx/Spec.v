(** The documented meaning of the view calls and of the four coordinate systems, written as maps on points
    (independently of the matrix algebra).  Used by the judge (Corr/C15.v) as the property oracle and by
    Ctx/ContextProofs.v, which proves that the model's matrices act exactly as these maps. *)
From Coq Require Import ZArith QArith List Bool.
From CV Require Import Base.Dy Geom.Matrix Ctx.DashCheck Ctx.Context.
Import ListNotations.
Open Scope Q_scope.

Definition pfn := qpt -> qpt.
Definition padd (p q : qpt) : qpt := (fst p + fst q, snd p + snd q).
(** representation only: reduce the fractions (x == Qred x) so that long compositions stay small *)
Definition pnorm (p : qpt) : qpt := (Qred (fst p), Qred (snd p)).
Definition about (c : qpt) (f : pfn) : pfn :=
  fun p => padd c (f (fst p - fst c, snd p - snd c)).

(** geometric meaning of each view call *)
Definition spec_view_op (o : op) : option pfn :=
  match o with
  | ComposeView m => Some (mdot m)
  | Translate x y => Some (fun p => (fst p + x, snd p + y))
  | ReflectX => Some (fun p => (- fst p, snd p))
  | ReflectXAbout x => Some (fun p => (2 * x - fst p, snd p))
  | ReflectY => Some (fun p => (fst p, - snd p))
  | ReflectYAbout y => Some (fun p => (fst p, 2 * y - snd p))
  | Rotate c s => Some (fun p => (c * fst p - s * snd p, s * fst p + c * snd p))
  | RotateAbout c s x y => Some (about (x, y) (fun p => (c * fst p - s * snd p, s * fst p + c * snd p)))
  | Scale sx sy => Some (fun p => (sx * fst p, sy * snd p))
  | ScaleAbout sx sy x y => Some (about (x, y) (fun p => (sx * fst p, sy * snd p)))
  | Shear sx sy => Some (fun p => (fst p + sx * snd p, sy * fst p + snd p))
  | ShearAbout sx sy x y => Some (about (x, y) (fun p => (fst p + sx * snd p, sy * fst p + snd p)))
  | _ => None
  end.

(** the four coordinate systems: origin in the bottom-left, bottom-right, top-right, top-left corner *)
Definition spec_csv (W H : Q) (s : csys) : pfn :=
  match s with
  | CartI => fun p => p
  | CartII => fun p => (W - fst p, snd p)
  | CartIII => fun p => (W - fst p, H - snd p)
  | CartIV => fun p => (fst p, H - snd p)
  end.


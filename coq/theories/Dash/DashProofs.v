(** C05 — proofs about the dash phase model (DashPhase.v): arithmetic of the cyclic pattern, dashStart,
    the Dash cut loop and the piece selection. *)
From Coq Require Import ZArith QArith Qround List Bool Arith Lia Lqa.
From CV Require Import Dash.DashPhase.
Import ListNotations.
Open Scope Q_scope.

(* ---------------------------------------------------------------------------------------------- *)
(** * sums and prefixes *)

Lemma allpos_nonneg l : allpos l -> nonneg l.
Proof. unfold allpos, nonneg. intro H. eapply Forall_impl; [|exact H]. intros a Ha. simpl in Ha. lra. Qed.

Lemma qsum_nonneg l : nonneg l -> 0 <= qsum l.
Proof. induction 1 as [|a l Ha _ IH]; simpl; lra. Qed.

Lemma qsum_app l1 l2 : qsum (l1 ++ l2) == qsum l1 + qsum l2.
Proof. induction l1 as [|a l1 IH]; simpl; lra. Qed.

Lemma qsum_pos l : allpos l -> l <> [] -> 0 < qsum l.
Proof.
  intros H Hne. destruct l as [|a l]; [congruence|]. inversion H as [|? ? Ha Hl]; subst.
  simpl. pose proof (qsum_nonneg l (allpos_nonneg l Hl)). lra.
Qed.

Lemma prefix_0 l : prefix l 0 = 0.
Proof. reflexivity. Qed.

Lemma prefix_cons a l i : prefix (a :: l) (S i) = a + prefix l i.
Proof. reflexivity. Qed.

Lemma prefix_S l : forall i, (i < length l)%nat -> prefix l (S i) == prefix l i + nth i l 0.
Proof.
  induction l as [|a l IH]; intros i Hi; simpl in Hi; [lia|].
  destruct i as [|i].
  - unfold prefix. simpl. lra.
  - rewrite !prefix_cons. simpl nth. rewrite IH by lia. lra.
Qed.

Lemma prefix_all l : prefix l (length l) == qsum l.
Proof. unfold prefix. rewrite firstn_all. reflexivity. Qed.

Lemma prefix_step_le l : nonneg l -> forall i, (i < length l)%nat -> prefix l i + nth i l 0 <= qsum l.
Proof.
  induction 1 as [|a l Ha Hl IH]; intros i Hi; simpl in Hi; [lia|].
  destruct i as [|i].
  - unfold prefix. simpl. pose proof (qsum_nonneg l Hl). lra.
  - rewrite prefix_cons. simpl nth. simpl qsum. specialize (IH i ltac:(lia)). lra.
Qed.

Lemma Forall_firstn {A} (Pr : A -> Prop) l : Forall Pr l -> forall i, Forall Pr (firstn i l).
Proof.
  induction 1 as [|a l Ha _ IH]; intros [|i]; simpl; constructor; auto.
Qed.

Lemma Forall_skipn {A} (Pr : A -> Prop) l : Forall Pr l -> forall i, Forall Pr (skipn i l).
Proof.
  induction 1 as [|a l Ha Hl IH]; intros [|i]; simpl; auto.
Qed.

Lemma prefix_nonneg l : nonneg l -> forall i, 0 <= prefix l i.
Proof. intros H i. unfold prefix. apply qsum_nonneg. apply Forall_firstn. exact H. Qed.

Lemma nth_pos l : allpos l -> forall i, (i < length l)%nat -> 0 < nth i l 0.
Proof. intros H i Hi. unfold allpos in H. rewrite Forall_forall in H. apply H. apply nth_In. exact Hi. Qed.

Lemma skipn_nth (l : list Q) : forall i, (i < length l)%nat -> skipn i l = nth i l 0 :: skipn (S i) l.
Proof.
  induction l as [|a l IH]; intros i Hi; simpl in Hi; [lia|].
  destruct i as [|i]; [reflexivity|]. simpl. apply IH. lia.
Qed.

(* ---------------------------------------------------------------------------------------------- *)
(** * floor / mod *)

Lemma int_small (a b : Z) (p d : Q) :
  0 < p -> (inject_Z a - inject_Z b) * p == d -> - p < d -> d < p -> a = b.
Proof.
  intros Hp He Hl Hu.
  destruct (Z.lt_trichotomy a b) as [H|[H|H]]; auto; exfalso.
  - assert (H1 : inject_Z (a + 1) <= inject_Z b) by (rewrite <- Zle_Qle; lia).
    rewrite inject_Z_plus in H1. change (inject_Z 1) with 1 in H1. nra.
  - assert (H1 : inject_Z (b + 1) <= inject_Z a) by (rewrite <- Zle_Qle; lia).
    rewrite inject_Z_plus in H1. change (inject_Z 1) with 1 in H1. nra.
Qed.

Lemma floor_bounds x : inject_Z (Qfloor x) <= x /\ x < inject_Z (Qfloor x) + 1.
Proof.
  split; [apply Qfloor_le|]. pose proof (Qlt_floor x) as H.
  rewrite inject_Z_plus in H. exact H.
Qed.

Lemma div_mul x p : 0 < p -> x == (x / p) * p.
Proof. intro Hp. field. lra. Qed.

Lemma qmod_spec x p : 0 < p ->
  0 <= qmod x p /\ qmod x p < p /\ x == qmod x p + inject_Z (Qfloor (x / p)) * p.
Proof.
  intro Hp. unfold qmod. destruct (floor_bounds (x / p)) as [H1 H2].
  pose proof (div_mul x p Hp) as E. set (y := x / p) in *. set (k := inject_Z (Qfloor y)) in *.
  repeat split; nra.
Qed.

Lemma qmod_unique x p r k : 0 < p -> 0 <= r -> r < p -> x == r + inject_Z k * p -> qmod x p == r.
Proof.
  intros Hp Hr0 Hr1 E. destruct (qmod_spec x p Hp) as (M0 & M1 & ME).
  set (m := qmod x p) in *. set (k' := Qfloor (x / p)) in *.
  assert (k = k').
  { apply (int_small k k' p (m - r) Hp); lra. }
  subst k'. rewrite <- H in ME. lra.
Qed.

(* ---------------------------------------------------------------------------------------------- *)
(** * walking the pattern *)

Lemma walk_ext l : forall par u u', u == u' -> walk par l u = walk par l u'.
Proof.
  induction l as [|a l IH]; intros par u u' E; simpl; [reflexivity|].
  destruct (Qlt_le_dec u a), (Qlt_le_dec u' a); try reflexivity; try (exfalso; lra).
  apply IH. lra.
Qed.

Lemma walk_app_ge l1 : forall l2 par u, nonneg l1 -> qsum l1 <= u ->
  walk par (l1 ++ l2) u = walk (xorb par (Nat.odd (length l1))) l2 (u - qsum l1).
Proof.
  induction l1 as [|a l1 IH]; intros l2 par u Hn Hu; simpl.
  - rewrite xorb_false_r. apply walk_ext. lra.
  - inversion Hn as [|? ? Ha Hl]; subst. pose proof (qsum_nonneg l1 Hl). simpl in Hu.
    destruct (Qlt_le_dec u a); [exfalso; lra|].
    rewrite IH by (auto; lra).
    rewrite Nat.odd_succ, <- Nat.negb_odd.
    replace (xorb (negb par) (Nat.odd (length l1))) with (xorb par (negb (Nat.odd (length l1))))
      by (destruct par, (Nat.odd (length l1)); reflexivity).
    apply walk_ext. lra.
Qed.

Lemma walk_hit par a l u : u < a -> walk par (a :: l) u = par.
Proof. intro H. simpl. destruct (Qlt_le_dec u a); [reflexivity|exfalso; lra]. Qed.

(** a position inside element i of the repeated pattern is drawn iff i is even *)
Lemma on_at_elem dd i r u k : allpos dd -> (i < length dd)%nat -> 0 <= r -> r < nth i dd 0 ->
  u == prefix dd i + r + inject_Z k * qsum dd -> on_at dd u = Nat.even i.
Proof.
  intros Hp Hi Hr0 Hr1 E. unfold on_at.
  assert (Hne : dd <> []) by (destruct dd; simpl in Hi; [lia|congruence]).
  pose proof (qsum_pos dd Hp Hne) as HP.
  destruct (Qlt_le_dec 0 (qsum dd)); [|exfalso; lra].
  pose proof (prefix_step_le dd (allpos_nonneg dd Hp) i Hi) as Hle.
  pose proof (prefix_nonneg dd (allpos_nonneg dd Hp) i) as Hp0.
  assert (M : qmod u (qsum dd) == prefix dd i + r).
  { apply (qmod_unique u (qsum dd) (prefix dd i + r) k); lra. }
  rewrite (walk_ext dd true _ _ M).
  rewrite <- (firstn_skipn i dd) at 1.
  assert (Hnn : nonneg (firstn i dd)) by (apply Forall_firstn, allpos_nonneg, Hp).
  rewrite walk_app_ge; [|exact Hnn|unfold prefix in *; lra].
  rewrite skipn_nth by exact Hi.
  rewrite walk_hit by (unfold prefix; lra).
  rewrite firstn_length_le by lia. simpl. rewrite <- Nat.negb_odd. reflexivity.
Qed.

(* ---------------------------------------------------------------------------------------------- *)
(** * dashStart *)

(** the phase invariant: pattern element i begins at path position pos <= 0 *)
Definition phase_ok (dd : list Q) (off : Q) (i : nat) (pos : Q) : Prop :=
  (i < length dd)%nat /\ pos <= 0 /\ exists k : Z, pos + off == prefix dd i + inject_Z k * qsum dd.

Lemma start_walk_spec l : forall i0 off i r, allpos l -> 0 <= off -> off < qsum l ->
  start_walk l i0 off = (i, r) ->
  exists j, i = (i0 + j)%nat /\ (j < length l)%nat /\ r == off - prefix l j /\ 0 <= r /\ r < nth j l 0.
Proof.
  induction l as [|a l IH]; intros i0 off i r Hp H0 H1 E; simpl in *.
  - exfalso; lra.
  - inversion Hp as [|? ? Ha Hl]; subst.
    destruct (Qlt_le_dec off a).
    + inversion E; subst. exists 0%nat. rewrite prefix_0. simpl. repeat split; try lia; try lra.
    + destruct (IH (S i0) (off - a) i r Hl ltac:(lra) ltac:(lra) E) as (j & Ej & Hj & Er & R0 & R1).
      exists (S j). rewrite prefix_cons. simpl. repeat split; try lia; try lra.
Qed.

Lemma qtrunc_neg x : x < 0 -> inject_Z (qtrunc x) == - inject_Z (Qfloor (- x)).
Proof.
  intro H. unfold qtrunc. destruct (Qlt_le_dec x 0); [|exfalso; lra].
  rewrite inject_Z_opp. reflexivity.
Qed.

(** FULL (after the fix): for every offset, negative or beyond the period, dashStart returns a valid phase *)
Lemma dash_start_phase dd off i0 pos0 : allpos dd -> dd <> [] ->
  dash_start off dd = (i0, pos0) -> phase_ok dd off i0 pos0.
Proof.
  intros Hp Hne E. pose proof (qsum_pos dd Hp Hne) as HP. set (P := qsum dd) in *.
  unfold dash_start, dash_walk in E. fold P in E.
  destruct (Qlt_le_dec off 0) as [Hneg|Hpos].
  - (* negative offset *)
    destruct (Qlt_le_dec off 0); [|exfalso; lra].
    inversion E; subst i0 pos0; clear E.
    assert (Hd : off / P < 0) by (apply Qlt_shift_div_r; lra).
    pose proof (qtrunc_neg _ Hd) as Ht.
    destruct (floor_bounds (- (off / P))) as [F1 F2].
    pose proof (div_mul off P HP) as Eo.
    unfold qfmod. set (y := off / P) in *. set (f := Qfloor (- y)) in *.
    set (t := inject_Z (qtrunc y)) in *.
    unfold phase_ok. split; [destruct dd; simpl; [congruence|lia]|]. split.
    + nra.
    + exists (- (1 + f))%Z. rewrite prefix_0, inject_Z_opp, inject_Z_plus. change (inject_Z 1) with 1. fold P.
      setoid_replace (- (P + (off - P * t)) + off) with (- P + P * t) by ring. rewrite Ht. ring.
  - (* non-negative offset: floor(off/P) cycles, then one pass *)
    change (off - P * inject_Z (Qfloor (off / P))) with (qmod off P) in E.
    destruct (qmod_spec off P HP) as (M0 & M1 & ME).
    destruct (start_walk dd 0 (qmod off P)) as [i r] eqn:Es.
    destruct (start_walk_spec dd 0%nat _ i r Hp M0 M1 Es) as (j & Ej & Hj & Er & R0 & R1).
    simpl in Ej. subst j.
    destruct (Qlt_le_dec r 0); [exfalso; lra|].
    inversion E; subst i0 pos0; clear E.
    unfold phase_ok. split; [exact Hj|]. split; [lra|].
    exists (Qfloor (off / P)). fold P. set (kk := inject_Z (Qfloor (off / P)) * P) in *. lra.
Qed.

(* ---------------------------------------------------------------------------------------------- *)
(** * which pieces are kept *)

Lemma kept_parity nt ends k : (k <= nt)%nat ->
  kept nt ends k = Bool.eqb (Nat.even (nt - k)) ends.
Proof.
  intro Hk. unfold kept, j0_of.
  destruct (k <? nt)%nat eqn:Hlt.
  - apply Nat.ltb_lt in Hlt.
    rewrite (Nat.even_sub nt k) by lia. rewrite <- (Nat.negb_even nt).
    destruct (Nat.even nt) eqn:En, ends; simpl.
    + rewrite Nat.sub_0_r. destruct (Nat.even k); reflexivity.
    + destruct k as [|k]; [reflexivity|]. simpl Nat.leb. rewrite Nat.sub_succ, Nat.sub_0_r.
      rewrite Nat.even_succ, <- Nat.negb_even. destruct (Nat.even k); reflexivity.
    + destruct k as [|k]; [reflexivity|]. simpl Nat.leb. rewrite Nat.sub_succ, Nat.sub_0_r.
      rewrite Nat.even_succ, <- Nat.negb_even. destruct (Nat.even k); reflexivity.
    + rewrite Nat.sub_0_r. destruct (Nat.even k); reflexivity.
  - apply Nat.ltb_ge in Hlt. assert (k = nt) by lia. subst k.
    rewrite Nat.eqb_refl, Nat.sub_diag. simpl. destruct ends; reflexivity.
Qed.

Lemma cnt_le t s : (cnt t s <= length t)%nat.
Proof. induction t as [|b t IH]; simpl; [lia|]. destruct (Qlt_le_dec s b); lia. Qed.

Lemma cnt_zero t s c : Forall (fun b => c <= b) t -> s < c -> cnt t s = 0%nat.
Proof.
  induction 1 as [|b t Hb _ IH]; intro Hs; simpl; [reflexivity|].
  destruct (Qlt_le_dec s b); [|exfalso; lra]. rewrite IH by exact Hs. reflexivity.
Qed.

Lemma cnt_zero' t s : Forall (fun b => s < b) t -> cnt t s = 0%nat.
Proof.
  induction 1 as [|b t Hb _ IH]; simpl; [reflexivity|].
  destruct (Qlt_le_dec s b); [|exfalso; lra]. rewrite IH. reflexivity.
Qed.

(* ---------------------------------------------------------------------------------------------- *)
(** * the cut loop of Dash *)

Lemma next_idx_lt n i : (i < n)%nat -> (next_idx n i < n)%nat.
Proof. intro H. unfold next_idx. destruct (S i =? n)%nat eqn:E; [lia|]. apply Nat.eqb_neq in E. lia. Qed.

Lemma even_next n i x : Nat.even n = true -> (i < n)%nat ->
  Nat.even (next_idx n i + x) = Nat.even (S i + x).
Proof.
  intros En Hi. unfold next_idx. destruct (S i =? n)%nat eqn:E; [|reflexivity].
  apply Nat.eqb_eq in E. rewrite E. simpl. rewrite (Nat.even_add n x), En. destruct (Nat.even x); reflexivity.
Qed.

Section Loop.
Variables (eps : Q) (dd : list Q) (L off : Q).
Hypothesis Hpos : allpos dd.
Hypothesis Heven : Nat.even (length dd) = true.
Hypothesis Heps : 0 <= eps.

Let n := length dd.
Let P := qsum dd.

Definition aligned (i : nat) (pos : Q) : Prop :=
  exists k : Z, pos + off == prefix dd i + inject_Z k * P.

Lemma aligned_next i pos : (i < n)%nat -> aligned i pos -> aligned (next_idx n i) (pos + nth i dd 0).
Proof.
  intros Hi [k Hk]. unfold next_idx. destruct (S i =? n)%nat eqn:E.
  - apply Nat.eqb_eq in E. exists (k + 1)%Z. rewrite prefix_0, inject_Z_plus. change (inject_Z 1) with 1.
    pose proof (prefix_S dd i Hi) as HS. pose proof (prefix_all dd) as HA. fold n in HA. rewrite <- E in HA.
    fold P in HA. nra.
  - exists k. pose proof (prefix_S dd i Hi) as HS. nra.
Qed.

Lemma in_elem i pos s : (i < n)%nat -> aligned i pos -> pos <= s -> s < pos + nth i dd 0 ->
  on_at dd (s + off) = Nat.even i.
Proof.
  intros Hi [k Hk] H1 H2. apply (on_at_elem dd i (s - pos) (s + off) k Hpos Hi); try lra.
  fold P. lra.
Qed.

(** Invariant of the loop [for pos+d[i]+Epsilon < length].  f = number of boundaries <= 0 that the code skips. *)
Lemma loop_spec : forall fuel i pos t ie,
  (i < n)%nat -> aligned i pos -> dash_loop eps fuel dd L i pos = Some (t, ie) ->
  (ie < n)%nat /\
  Forall (fun b => 0 < b /\ pos + nth i dd 0 <= b /\ b + eps < L) t /\
  exists f : nat,
    (0 < pos + nth i dd 0 -> f = 0%nat) /\
    (forall s, 0 <= s -> pos <= s -> s + eps < L -> on_at dd (s + off) = Nat.even (i + f + cnt t s)) /\
    Nat.even ie = Nat.even (i + f + length t).
Proof.
  induction fuel as [|fuel IH]; intros i pos t ie Hi Hal E.
  - simpl in E. destruct (Qlt_le_dec (pos + nth i dd 0 + eps) L) as [Hc|Hc]; [discriminate|].
    inversion E; subst t ie; clear E. split; [exact Hi|]. split; [constructor|].
    exists 0%nat. split; [reflexivity|]. split.
    + intros s Hs0 Hs1 Hs2. simpl. rewrite !Nat.add_0_r. apply (in_elem i pos s Hi Hal Hs1). lra.
    + simpl. rewrite !Nat.add_0_r. reflexivity.
  - simpl in E. destruct (Qlt_le_dec (pos + nth i dd 0 + eps) L) as [Hc|Hc].
    + fold n in E. set (i' := next_idx n i) in *. set (pos' := pos + nth i dd 0) in *.
      destruct (dash_loop eps fuel dd L i' pos') as [[t' ie']|] eqn:Er; [|discriminate].
      pose proof (nth_pos dd Hpos i Hi) as Hdi.
      pose proof (next_idx_lt n i Hi) as Hi'. fold i' in Hi'.
      pose proof (nth_pos dd Hpos i' Hi') as Hdi'.
      destruct (IH i' pos' t' ie' Hi' (aligned_next i pos Hi Hal) Er) as (Hie & Hall & f' & Hf0 & Hon & Hev).
      assert (Hall' : Forall (fun b => pos' <= b) t').
      { eapply Forall_impl; [|exact Hall]. intros b (B0 & B1 & B2). simpl. lra. }
      destruct (Qlt_le_dec 0 pos') as [Hp0|Hp0]; inversion E; subst t ie; clear E.
      * split; [exact Hie|]. split.
        { constructor; [repeat split; fold pos'; lra|].
          eapply Forall_impl; [|exact Hall]. intros b (B0 & B1 & B2). fold pos'. repeat split; lra. }
        specialize (Hf0 ltac:(lra)). subst f'.
        exists 0%nat. split; [reflexivity|]. split.
        -- intros s Hs0 Hs1 Hs2. simpl cnt. destruct (Qlt_le_dec s pos') as [Hlt|Hge].
           ++ rewrite (cnt_zero t' s pos' Hall' Hlt). simpl. rewrite !Nat.add_0_r.
              apply (in_elem i pos s Hi Hal Hs1). exact Hlt.
           ++ rewrite (Hon s Hs0 Hge Hs2). unfold i'. rewrite Nat.add_0_r, (even_next n i _ Heven Hi).
              f_equal. lia.
        -- rewrite Hev. unfold i'. rewrite Nat.add_0_r, (even_next n i _ Heven Hi). simpl length. f_equal. lia.
      * split; [exact Hie|]. split.
        { eapply Forall_impl; [|exact Hall]. intros b (B0 & B1 & B2). fold pos'. repeat split; lra. }
        exists (S f'). split; [intro; exfalso; fold pos' in H; lra|]. split.
        -- intros s Hs0 Hs1 Hs2. rewrite (Hon s Hs0 ltac:(lra) Hs2). unfold i'.
           rewrite <- Nat.add_assoc, (even_next n i _ Heven Hi). f_equal. lia.
        -- rewrite Hev. unfold i'. rewrite <- Nat.add_assoc, (even_next n i _ Heven Hi). f_equal. lia.
    + inversion E; subst t ie; clear E. split; [exact Hi|]. split; [constructor|].
      exists 0%nat. split; [reflexivity|]. split.
      * intros s Hs0 Hs1 Hs2. simpl. rewrite !Nat.add_0_r. apply (in_elem i pos s Hi Hal Hs1). lra.
      * simpl. rewrite !Nat.add_0_r. reflexivity.
Qed.

(** dash_intervals_spec on the doubled canonical pattern: started from any valid phase, the pieces Dash keeps are
    exactly the positions that are [on]; the only deviation is the Epsilon cut: a cut the pattern prescribes in
    [L - Epsilon, L) is not made, so the claim is for s + Epsilon < L (for such a cut the last piece
    [last t, L) is kept or dropped as a whole, by the state at its beginning). *)
Lemma sel_spec fuel i0 pos0 t ie : phase_ok dd off i0 pos0 ->
  dash_loop eps fuel dd L i0 pos0 = Some (t, ie) ->
  forall s, 0 <= s -> s + eps < L -> sel t ie s = on_at dd (s + off).
Proof.
  intros (Hi & Hp0 & Hal) E s Hs0 Hs1.
  destruct (loop_spec fuel i0 pos0 t ie Hi Hal E) as (_ & _ & f & _ & Hon & Hev).
  rewrite (Hon s Hs0 ltac:(lra) Hs1). unfold sel, ends_in_dash.
  rewrite kept_parity by apply cnt_le. rewrite Hev.
  pose proof (cnt_le t s) as Hc.
  rewrite Nat.even_sub by exact Hc.
  rewrite (Nat.even_add (i0 + f) (length t)), (Nat.even_add (i0 + f) (cnt t s)).
  destruct (Nat.even (i0 + f)), (Nat.even (length t)), (Nat.even (cnt t s)); reflexivity.
Qed.

(** cuts are positive, increasing and at least Epsilon before the end *)
Lemma loop_cuts fuel i0 pos0 t ie : phase_ok dd off i0 pos0 ->
  dash_loop eps fuel dd L i0 pos0 = Some (t, ie) -> Forall (fun b => 0 < b /\ b + eps < L) t.
Proof.
  intros (Hi & Hp0 & Hal) E.
  destruct (loop_spec fuel i0 pos0 t ie Hi Hal E) as (_ & Hall & _).
  eapply Forall_impl; [|exact Hall]. intros b (B0 & B1 & B2). split; assumption.
Qed.

(** closed_join_rule: on a closed subpath with at least one cut, the last piece is joined to the front of the
    first one exactly when both position 0 and the end of the subpath are inside a dash *)
Lemma join_rule fuel i0 pos0 t ie : phase_ok dd off i0 pos0 ->
  dash_loop eps fuel dd L i0 pos0 = Some (t, ie) -> t <> [] ->
  join_decision true t ie = on_at dd (0 + off) && ends_in_dash ie
  /\ (forall s, 0 <= s -> s + eps < L -> Forall (fun b => b <= s) t -> ends_in_dash ie = on_at dd (s + off)).
Proof.
  intros Hph E Hne. pose proof Hph as (Hi & Hp0 & Hal).
  destruct (loop_spec fuel i0 pos0 t ie Hi Hal E) as (_ & Hall & _).
  assert (Hl : (0 < length t)%nat) by (destruct t; simpl; [congruence|lia]).
  split.
  - assert (H0 : 0 + eps < L).
    { destruct t as [|b t']; [congruence|]. inversion Hall as [|? ? (B0 & B1 & B2) _]; subst. lra. }
    rewrite <- (sel_spec fuel i0 pos0 t ie Hph E 0 ltac:(lra) H0).
    unfold join_decision, sel. simpl andb.
    assert (C0 : cnt t 0 = 0%nat).
    { apply cnt_zero'. eapply Forall_impl; [|exact Hall]. intros b (B0 & B1 & B2). exact B0. }
    rewrite C0. unfold kept. destruct (0 <? length t)%nat eqn:Hlt; [|apply Nat.ltb_ge in Hlt; lia].
    destruct (ends_in_dash ie); simpl; [|rewrite andb_false_r; reflexivity].
    rewrite andb_true_r. destruct (length t =? 0)%nat eqn:Hz; [apply Nat.eqb_eq in Hz; lia|]. simpl.
    rewrite andb_true_r. unfold j0_of. rewrite andb_true_r, andb_false_r, orb_false_r.
    destruct (Nat.odd (length t)); reflexivity.
  - intros s Hs0 Hs1 Hge.
    rewrite <- (sel_spec fuel i0 pos0 t ie Hph E s Hs0 Hs1). unfold sel.
    assert (C : cnt t s = length t).
    { clear -Hge. induction Hge as [|b t Hb _ IH]; simpl; [reflexivity|].
      destruct (Qlt_le_dec s b); [exfalso; lra|]. rewrite IH. reflexivity. }
    rewrite C. unfold kept. rewrite Nat.ltb_irrefl, Nat.eqb_refl. reflexivity.
Qed.

End Loop.

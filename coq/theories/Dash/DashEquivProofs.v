(** C05 — dash_canonical_equiv, PARTIAL: the first canonicalisation step ("remove zeros except first and last")
    preserves [on] for every position.  Missing for the full statement: the first-zero / last-zero steps (a rotation of
    the cyclic pattern plus the same merge) and the REPEAT step (qmod u (2P) vs qmod u P); see design/C05.md. *)
From Coq Require Import ZArith QArith Qround List Bool Arith Lia Lqa.
From CV Require Import Dash.DashPhase Dash.DashProofs.
Import ListNotations.
Open Scope Q_scope.

Lemma walk_app_lt l1 : forall l2 par u, nonneg l1 -> 0 <= u -> u < qsum l1 ->
  walk par (l1 ++ l2) u = walk par l1 u.
Proof.
  induction l1 as [|a l1 IH]; intros l2 par u Hn H0 H1; simpl in *; [exfalso; lra|].
  inversion Hn; subst. destruct (Qlt_le_dec u a); [reflexivity|]. apply IH; auto; lra.
Qed.

(** merging a dash/gap with the next one across a zero-length element does not change the walk *)
Lemma walk_merge par a z b q u : z == 0 -> 0 <= b ->
  walk par (a :: z :: b :: q) u = walk par ((a + b) :: q) u.
Proof.
  intros Hz Hb. simpl.
  destruct (Qlt_le_dec u a), (Qlt_le_dec u (a + b)); try (exfalso; lra); try reflexivity.
  - destruct (Qlt_le_dec (u - a) z); [exfalso; lra|].
    destruct (Qlt_le_dec (u - a - z) b); [|exfalso; lra]. apply negb_involutive.
  - destruct (Qlt_le_dec (u - a) z); [exfalso; lra|].
    destruct (Qlt_le_dec (u - a - z) b); [exfalso; lra|]. rewrite negb_involutive. apply walk_ext. lra.
Qed.

(** entries are non-negative and the Epsilon test for zero is exact on them (true on any grid coarser than eps) *)
Definition exact0 (eps : Q) (l : list Q) : Prop :=
  Forall (fun x => 0 <= x /\ (eq0 eps x = true -> x == 0)) l.

Lemma rm_mid_walk eps : forall n rest prev, (length rest <= n)%nat -> exact0 eps rest ->
  (forall par u, walk par (rm_mid_zeros eps prev rest) u = walk par (prev :: rest) u)
  /\ qsum (rm_mid_zeros eps prev rest) == qsum (prev :: rest)
  /\ Nat.even (length (rm_mid_zeros eps prev rest)) = Nat.even (length (prev :: rest))
  /\ (0 <= prev -> nonneg (rm_mid_zeros eps prev rest)).
Proof.
  induction n as [|n IH]; intros rest prev Hl Hx.
  - destruct rest; simpl in Hl; [|lia]. simpl. repeat split; try reflexivity. intro; repeat constructor; auto.
  - destruct rest as [|x [|y tl]].
    + simpl. repeat split; try reflexivity. intro; repeat constructor; auto.
    + inversion Hx as [|? ? [Hx0 _] _]; subst. simpl. repeat split; try reflexivity. intro; repeat constructor; auto.
    + inversion Hx as [|? ? [Hx0 Hxz] Hx']; subst. inversion Hx' as [|? ? [Hy0 Hyz] Hx'']; subst.
      simpl rm_mid_zeros. destruct (eq0 eps x) eqn:E.
      * destruct (IH tl (prev + y) ltac:(simpl in Hl; lia) Hx'') as (W & S & Ln & Nn).
        specialize (Hxz eq_refl). repeat split.
        -- intros par u. rewrite W. symmetry. apply walk_merge; assumption.
        -- rewrite S. simpl. lra.
        -- rewrite Ln. simpl length. rewrite Nat.even_succ_succ. reflexivity.
        -- intro Hp. apply Nn. lra.
      * destruct (IH (y :: tl) x ltac:(simpl in Hl; simpl; lia) Hx') as (W & S & Ln & Nn).
        repeat split.
        -- intros par u. simpl. destruct (Qlt_le_dec u prev); [reflexivity|]. apply W.
        -- simpl. simpl in S. rewrite S. reflexivity.
        -- simpl length. rewrite !Nat.even_succ, <- !Nat.negb_even. simpl in Ln. rewrite Ln. reflexivity.
        -- intro Hp. constructor; [exact Hp|]. apply Nn. exact Hx0.
Qed.

Section Ext.
Variables A A' : list Q.
Hypothesis HW : forall par u, walk par A' u = walk par A u.
Hypothesis HS : qsum A' == qsum A.
Hypothesis HL : Nat.even (length A') = Nat.even (length A).
Hypothesis HN : nonneg A.
Hypothesis HN' : nonneg A'.

Lemma walk_dbl_ext par u : 0 <= u -> walk par (A' ++ A') u = walk par (A ++ A) u.
Proof.
  intro H0. destruct (Qlt_le_dec u (qsum A)) as [Hlt|Hge].
  - rewrite walk_app_lt by (auto; lra). rewrite walk_app_lt by (auto; lra). apply HW.
  - rewrite walk_app_ge by (auto; lra). rewrite walk_app_ge by (auto; lra).
    rewrite <- !Nat.negb_even, HL, HW. apply walk_ext. lra.
Qed.

Lemma dbl_ext_sum : qsum (dbl A') == qsum (dbl A).
Proof.
  unfold dbl. rewrite <- !Nat.negb_even, HL. destruct (negb (Nat.even (length A))); [|exact HS].
  rewrite !qsum_app, HS. reflexivity.
Qed.

Lemma on_at_dbl_ext u : on_at (dbl A') u = on_at (dbl A) u.
Proof.
  unfold on_at. pose proof dbl_ext_sum as HP.
  destruct (Qlt_le_dec 0 (qsum (dbl A'))) as [H1|H1], (Qlt_le_dec 0 (qsum (dbl A))) as [H2|H2];
    try reflexivity; try (exfalso; lra).
  assert (HF : Qfloor (u / qsum (dbl A')) = Qfloor (u / qsum (dbl A))) by (apply Qfloor_comp; rewrite HP; reflexivity).
  assert (HM : qmod u (qsum (dbl A')) == qmod u (qsum (dbl A))) by (unfold qmod; rewrite HF, HP; reflexivity).
  destruct (qmod_spec u _ H1) as (M0 & _).
  rewrite (walk_ext _ _ _ _ HM). rewrite HM in M0.
  revert M0. unfold dbl. rewrite <- !Nat.negb_even, HL. destruct (negb (Nat.even (length A))); intro M0.
  - apply walk_dbl_ext. exact M0.
  - apply HW.
Qed.
End Ext.

(** dash_canonical_equiv_partial: removing the interior zeros preserves [on] at every position, for every offset *)
Lemma rm_mid_zeros_on eps d0 rest off s : 0 <= d0 -> exact0 eps rest ->
  on (rm_mid_zeros eps d0 rest) off s = on (d0 :: rest) off s.
Proof.
  intros H0 Hx. destruct (rm_mid_walk eps (length rest) rest d0 ltac:(lia) Hx) as (W & S & Ln & Nn).
  unfold on. apply on_at_dbl_ext; auto.
  constructor; [exact H0|]. eapply Forall_impl; [|exact Hx]. intros a [Ha _]. exact Ha.
Qed.

Example ex_rm_mid : rm_mid_zeros (1 # 10000000000) 1 [0; 2; 3; 0; 1; 4] = [3; 4; 4]
                    /\ exact0 (1 # 10000000000) [0; 2; 3; 0; 1; 4].
Proof.
  split; [vm_compute; reflexivity|].
  repeat constructor; try discriminate; try (intro H; vm_compute in H; discriminate); reflexivity.
Qed.

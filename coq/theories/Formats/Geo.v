(** Geometry pieces denoted by the textual path formats, and their comparison within an explicit rational
    slack. *)
From Coq Require Import ZArith QArith Qabs Qminmax List Bool.
From CV Require Import PathEnc.Enc Formats.Decimal.
Import ListNotations.
Open Scope Q_scope.

Inductive gp :=
| GMove (p : pt)
| GLine (a b : pt)
| GQuad (a c b : pt)
| GCube (a c1 c2 b : pt)
| GArcE (a : pt) (rx ry rotdeg : Q) (large sweep : bool) (b : pt)       (* SVG endpoint form, rotation in degrees *)
| GArcC (a : pt) (cx cy rx ry th0 th1 rotdeg : Q) (ccw : bool)           (* PS centre form: arc / arcn, degrees *)
| GClose (a b : pt).

(** |x - y| <= abs + rel * max(|x|,|y|) *)
Definition near (abs rel x y : Q) : bool :=
  Qle_bool (Qabs (x - y)) (abs + rel * Qmax (Qabs x) (Qabs y)).
Definition pnear (abs rel : Q) (a b : pt) : bool := near abs rel (fst a) (fst b) && near abs rel (snd a) (snd b).

(** what a well-formed structural path traces, piece by piece (pen tracked from the data) *)
Fixpoint gp_of_segs (cur start : pt) (l : list seg) : list gp :=
  match l with
  | [] => []
  | s :: r =>
    match s with
    | SM p => GMove p :: gp_of_segs p p r
    | SL p => GLine cur p :: gp_of_segs p start r
    | SQ c p => GQuad cur c p :: gp_of_segs p start r
    | SC c1 c2 p => GCube cur c1 c2 p :: gp_of_segs p start r
    | SA rx ry phi fl p =>
      (* rotation in degrees as the printers compute it: phi * 180 / math.Pi *)
      GArcE cur rx ry (phi * (180#1) / PI_F) (Qeq_bool fl 1 || Qeq_bool fl (3#1)) (Qeq_bool fl (2#1) || Qeq_bool fl (3#1)) p
      :: gp_of_segs p start r
    | SZ p => GClose cur p :: gp_of_segs p start r
    end
  end.

(** whitespace-separated tokens of the PDF/PS operator strings: a number (the whole token is a numeral) or a word *)
Inductive tok := TNum (v : Q) | TWord (w : list Z) | TBad.

Fixpoint split_sp (b : list Z) (cur : list Z) : list (list Z) :=
  match b with
  | [] => match cur with [] => [] | _ => [rev cur] end
  | c :: r => if (c =? 32)%Z || (c =? 10)%Z
              then match cur with [] => split_sp r [] | _ => rev cur :: split_sp r [] end
              else split_sp r (c :: cur)
  end.

Definition tok_of (w : list Z) : tok :=
  let r := parse_float w in
  if (pf_len r =? length w)%nat && negb (pf_len r =? 0)%nat
  then match pf_value r with Some v => TNum v | None => TBad end
  else TWord w.

Definition tokens (b : list Z) : list tok := map tok_of (split_sp b []).

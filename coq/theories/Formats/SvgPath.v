(** (a) Faithful model of ParseSVGPath (path.go:1976-2146) including its index arithmetic.
    Bytes are [Z]; the input slice is a list, the cursor [i] a [nat]; every read [path[i]] goes through
    [nth_error] and every re-slice [path[i:]] through [slice_from]: an access outside the slice is the
    explicit result [PPanic].  The loop runs on explicit fuel [length + 1]; [PFuel] would mean the Go loop
    does not terminate (theorem parse_total: never).  Numerals are read by [Decimal.parse_float] (model of the
    external tdewolff/parse strconv.ParseFloat); the path is built by the raw-data builder model of
    PathEnc/Builder.v (variant [Fixed], arcs relational: the radii/rotation the Go code stored are supplied
    in call order by [orc]).

    [pvariant]: [POrig] = the pinned commit (reads [path[i]] after skipping white space without a bound
    check), [PFixed] = after the fix (white-space-only input is the empty path).

    Errors carry (kind, position) as printed by the Go messages:
      1 "path should start with command"        2 "largeArc and sweep flags should be 0 or 1 ... at position i+1"
      3 "unknown command 'c' at position i+1" (numeral expected while repeating)
      4 "sets of n numbers should follow command"   5 "number should follow command"
      6 "unknown command 'c' at position i+1" (switch default) *)
From Coq Require Import ZArith QArith List Bool Lia.
From CV Require Import PathEnc.Enc PathEnc.Builder Formats.Decimal.
Import ListNotations.
Open Scope Z_scope.

Inductive pvariant := POrig | PFixed.

Inductive pres :=
| POk (rd : list num)
| PErr (kind : Z) (pos : nat)
| PPanic
| PFuel
| PUnmodelled.

Definition is_ws (c : Z) : bool := (c =? 32) || (c =? 44) || (c =? 10) || (c =? 13) || (c =? 9).

(** skipCommaWhitespace *)
Fixpoint skip_ws (b : list Z) : nat :=
  match b with
  | c :: r => if is_ws c then S (skip_ws r) else O
  | [] => O
  end.

(** path[i:]  —  panics when i > len *)
Definition slice_from (d : list Z) (i : nat) : option (list Z) :=
  if (i <=? length d)%nat then Some (skipn i d) else None.

Definition upper (c : Z) : Z := if (97 <=? c) && (c <=? 122) then c - 32 else c.

(** the map cmdLens (missing key = 0) *)
Definition nargs (CMD : Z) : nat :=
  if CMD =? 77 then 2 else if CMD =? 90 then 0 else if CMD =? 76 then 2 else if CMD =? 72 then 1
  else if CMD =? 86 then 1 else if CMD =? 67 then 6 else if CMD =? 83 then 4 else if CMD =? 81 then 4
  else if CMD =? 84 then 2 else if CMD =? 65 then 7 else 0.

Definition known_cmd (c : Z) : bool :=
  existsb (Z.eqb c) [77; 109; 90; 122; 76; 108; 72; 104; 86; 118; 67; 99; 83; 115; 81; 113; 84; 116; 65; 97].

Definition numeric_start (c : Z) : bool := is_digit c || (c =? 46) || (c =? 45) || (c =? 43).

Inductive ares :=
| AOk (i : nat) (fs : list Q)
| AErr (kind : Z) (pos : nat)
| APanic
| AUnm.

(** the argument loop [for j := 0; j < cmdLens[CMD]; j++]; [k] = remaining iterations, [j] = index *)
Fixpoint read_args (d : list Z) (CMD : Z) (repeat : bool) (k : nat) (j : nat) (i : nat) (acc : list Q) : ares :=
  match k with
  | O => AOk i (rev acc)
  | S k' =>
    let after (i1 : nat) (v : Q) :=
        match slice_from d i1 with
        | None => APanic
        | Some s => read_args d CMD repeat k' (S j) (i1 + skip_ws s) (v :: acc)
        end in
    if (CMD =? 65) && ((j =? 3)%nat || (j =? 4)%nat) then
      match nth_error d i with                              (* i < len(path) && path[i] == '1' / '0' *)
      | Some c => if c =? 49 then after (S i) 1%Q
                  else if c =? 48 then after (S i) 0%Q
                  else AErr 2 (S i)
      | None => AErr 2 (S i)
      end
    else
      match slice_from d i with
      | None => APanic
      | Some s =>
        let r := parse_float s in
        match pf_len r with
        | O => if repeat && (j =? 0)%nat && (i <? length d)%nat then AErr 3 (S i)
               else if (1 <? nargs CMD)%nat then AErr 4 (S i) else AErr 5 (S i)
        | n => match pf_value r with
               | None => AUnm
               | Some v => after (i + n)%nat v
               end
        end
      end
  end.

Record pst := mkP { p_i : nat; p_rd : list num; p_q : pt; p_c : pt; p_p0 : pt; p_p1 : pt; p_prev : Z;
                    p_orc : list (Q * Q * Q) }.

Definition padd (a b : pt) : pt := (fst a + fst b, snd a + snd b)%Q.
Definition refl (p0 c : pt) : pt := ((2#1) * fst p0 - fst c, (2#1) * snd p0 - snd c)%Q.   (* p0.Mul(2).Sub(c) *)
Definition fnth (fs : list Q) (j : nat) : Q := nth j fs 0%Q.

Definition is_any (c : Z) (l : list Z) : bool := existsb (Z.eqb c) l.

(** one command applied to the builder: [None] = the builder panics (never: SvgPathProofs).
    [CMD] = upper-case command, [rel] = the command letter is lower case, [cmd] = the letter itself *)
Definition apply_up (CMD : Z) (rel : bool) (cmd : Z) (fs : list Q) (st : pst) : option pst :=
  let p0 := p_p0 st in
  let ab (p : pt) := if rel then padd p p0 else p in
  let f := fnth fs in
  let fin (rd : option (list num)) (p1 q c : pt) (cmd' : Z) (orc : list (Q * Q * Q)) :=
      match rd with
      | Some rd' => Some (mkP (p_i st) rd' q c p1 p1 cmd' orc)
      | None => None
      end in
  if CMD =? 77 then
    let p1 := ab (f 0%nat, f 1%nat) in
    fin (move_to (fst p1) (snd p1) (p_rd st)) p1 (p_q st) (p_c st) (if rel then 108 else 76) (p_orc st)
  else if CMD =? 90 then
    match startpos (p_rd st) with
    | None => None
    | Some p1 => fin (close (p_rd st)) p1 (p_q st) (p_c st) cmd (p_orc st)
    end
  else if CMD =? 76 then
    let p1 := ab (f 0%nat, f 1%nat) in
    fin (line_to Fixed (fst p1) (snd p1) (p_rd st)) p1 (p_q st) (p_c st) cmd (p_orc st)
  else if CMD =? 72 then
    let p1 := ((if rel then f 0%nat + fst p0 else f 0%nat)%Q, snd (p_p1 st)) in
    fin (line_to Fixed (fst p1) (snd p1) (p_rd st)) p1 (p_q st) (p_c st) cmd (p_orc st)
  else if CMD =? 86 then
    let p1 := (fst (p_p1 st), (if rel then f 0%nat + snd p0 else f 0%nat)%Q) in
    fin (line_to Fixed (fst p1) (snd p1) (p_rd st)) p1 (p_q st) (p_c st) cmd (p_orc st)
  else if CMD =? 67 then
    let c1 := ab (f 0%nat, f 1%nat) in let c2 := ab (f 2%nat, f 3%nat) in let p1 := ab (f 4%nat, f 5%nat) in
    fin (cube_to Fixed (fst c1) (snd c1) (fst c2) (snd c2) (fst p1) (snd p1) (p_rd st)) p1 (p_q st) c2 cmd (p_orc st)
  else if CMD =? 83 then
    let c2 := ab (f 0%nat, f 1%nat) in let p1 := ab (f 2%nat, f 3%nat) in
    let c1 := if is_any (p_prev st) [67; 99; 83; 115] then refl p0 (p_c st) else p0 in
    fin (cube_to Fixed (fst c1) (snd c1) (fst c2) (snd c2) (fst p1) (snd p1) (p_rd st)) p1 (p_q st) c2 cmd (p_orc st)
  else if CMD =? 81 then
    let cp := ab (f 0%nat, f 1%nat) in let p1 := ab (f 2%nat, f 3%nat) in
    fin (quad_to Fixed (fst cp) (snd cp) (fst p1) (snd p1) (p_rd st)) p1 cp (p_c st) cmd (p_orc st)
  else if CMD =? 84 then
    let p1 := ab (f 0%nat, f 1%nat) in
    let cp := if is_any (p_prev st) [81; 113; 84; 116] then refl p0 (p_q st) else p0 in
    fin (quad_to Fixed (fst cp) (snd cp) (fst p1) (snd p1) (p_rd st)) p1 cp (p_c st) cmd (p_orc st)
  else if CMD =? 65 then
    let p1 := ab (f 5%nat, f 6%nat) in
    let large := Qeq_bool (f 3%nat) 1 in let sweep := Qeq_bool (f 4%nat) 1 in
    let o := match p_orc st with o :: _ => o | [] => (1%Q, 1%Q, 0%Q) end in
    (* the stored values are consumed only when a record is appended *)
    let appended := match pos (p_rd st) with
                    | Some s => negb (pt_eqb s p1) && negb (Qeq_bool (f 0%nat) 0 || Qeq_bool (f 1%nat) 0)
                    | None => false
                    end in
    fin (arc_to Fixed (f 0%nat) (f 1%nat) large sweep (fst p1) (snd p1) (fst (fst o)) (snd (fst o)) (snd o) (p_rd st))
        p1 (p_q st) (p_c st) cmd (if appended then tl (p_orc st) else p_orc st)
  else None.

Definition apply_cmd (cmd : Z) (fs : list Q) (st : pst) : option pst :=
  apply_up (upper cmd) (97 <=? cmd) cmd fs st.

(** one iteration of the main loop.  [inl st'] = continue, [inr r] = return *)
Definition iter (d : list Z) (st : pst) : pst + pres :=
  match slice_from d (p_i st) with
  | None => inr PPanic
  | Some s =>
    let i := (p_i st + skip_ws s)%nat in
    if (length d <=? i)%nat then inr (POk (p_rd st))
    else
      match nth_error d i with
      | None => inr PPanic
      | Some ci =>
        let prev := p_prev st in
        let hd := if (prev =? 122) || (prev =? 90) || negb (numeric_start ci)
                  then match slice_from d (S i) with
                       | None => None
                       | Some s2 => Some (ci, false, (S i + skip_ws s2)%nat)
                       end
                  else Some (prev, true, i) in
        match hd with
        | None => inr PPanic
        | Some (cmd, repeat, i1) =>
          let CMD := upper cmd in
          match read_args d CMD repeat (nargs CMD) 0 i1 [] with
          | APanic => inr PPanic
          | AUnm => inr PUnmodelled
          | AErr k p => inr (PErr k p)
          | AOk i2 fs =>
            if known_cmd cmd then
              match apply_cmd cmd fs st with
              | None => inr PPanic
              | Some st' => inl (mkP i2 (p_rd st') (p_q st') (p_c st') (p_p0 st') (p_p1 st') (p_prev st') (p_orc st'))
              end
            else inr (PErr 6 (S i2))
          end
        end
      end
  end.

Fixpoint loop (fuel : nat) (d : list Z) (st : pst) : pres :=
  match fuel with
  | O => PFuel
  | S f => match iter d st with
           | inr r => r
           | inl st' => loop f d st'
           end
  end.

Definition parse (v : pvariant) (d : list Z) (orc : list (Q * Q * Q)) : pres :=
  match d with
  | [] => POk []
  | c0 :: _ =>
    let i := skip_ws d in
    let start := mkP i [] (0, 0)%Q (0, 0)%Q (0, 0)%Q (0, 0)%Q 122 orc in
    match v with
    | POrig =>
      (* if path[0] == ',' || path[i] < 'A' *)
      if c0 =? 44 then PErr 1 0
      else match nth_error d i with
           | None => PPanic
           | Some ci => if ci <? 65 then PErr 1 0 else loop (S (length d)) d start
           end
    | PFixed =>
      (* if len(path) <= i { return &Path{}, nil }; if path[0] == ',' || path[i] < 'A' *)
      if (length d <=? i)%nat then POk []
      else if c0 =? 44 then PErr 1 0
      else match nth_error d i with
           | None => PPanic
           | Some ci => if ci <? 65 then PErr 1 0 else loop (S (length d)) d start
           end
    end
  end.


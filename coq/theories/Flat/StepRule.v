(** C03 — the step rule of flattenQuadraticBezier: t = 2 sqrt(tol |D| / |D x (p2-p0)|), D = p1 - p0.
    The rule bounds only the offset perpendicular to the *start tangent*; it keeps the deviation from the chord
    below tol exactly when the curve does not turn back against that tangent.  Relational in the square root
    (Cert.step_rule_ok). *)
From Coq Require Import QArith Lqa List Bool.
From CV Require Import Base.Dy Flat.Curves Flat.CurvesProofs Flat.Cert.
Import ListNotations.
Open Scope Q_scope.

(** FULL STATEMENT (false, see [flatten_step_rule_refuted]):
      forall p0 p1 p2 tol t, step_rule_ok p0 p1 p2 tol t ->
      forall tau, 0 <= tau <= t -> exists lam in [0,1], dist2 (B tau) (lerp p0 (B t) lam) <= (K tol)^2
    for a constant K.  Proved below under the hypothesis that the second difference a = p0 - 2 p1 + p2 does not
    point against the start tangent (D . a >= 0), for the distance to the chord's supporting line, with K = 1:
      ((B tau - p0) x (B t - p0))^2 <= tol^2 |B t - p0|^2. *)
Lemma flatten_step_rule_scalar dx dy ax ay tol t tau :
  let X := dx * ay - dy * ax in
  let Da := dx * ax + dy * ay in
  let Px := 2 * dx * tau + ax * (tau * tau) in let Py := 2 * dy * tau + ay * (tau * tau) in
  let cx := 2 * dx * t + ax * (t * t) in let cy := 2 * dy * t + ay * (t * t) in
  0 <= t -> t <= 1 -> (t * t) * (t * t) * (X * X) <= 16 * (tol * tol) * (dx * dx + dy * dy) ->
  0 <= Da -> 0 <= tau -> tau <= t ->
  (Px * cy - Py * cx) * (Px * cy - Py * cx) <= (tol * tol) * (cx * cx + cy * cy).
Proof.
  intros X Da Px Py cx cy T0 T1 Rule HDa U0 U1.
  set (w := tau * (t - tau)).
  assert (W0: 0 <= w) by (apply Qmult_le_0_compat; lra).
  assert (W1: w <= t * t * (1 # 4)).
  { pose proof (param_product_le_quarter 0 tau t) as H.
    assert (E1: (tau - 0) * (t - tau) == w) by (unfold w; ring). assert (E2: (t - 0) * (t - 0) * (1 # 4) == t * t * (1 # 4)) by ring.
    rewrite E1, E2 in H. exact H. }
  assert (W2: w * w <= (t * t * (1 # 4)) * (t * t * (1 # 4))) by (apply Qsq_le_mono; assumption).
  assert (EL: (Px * cy - Py * cx) * (Px * cy - Py * cx) == 4 * ((t * t) * ((w * w) * (X * X)))) by (unfold Px, Py, cx, cy, w, X; ring).
  assert (ER: cx * cx + cy * cy == (t * t) * (4 * (dx * dx + dy * dy) + 4 * (t * Da) + (t * t) * (ax * ax + ay * ay))) by (unfold cx, cy, Da; ring).
  rewrite EL, ER.
  set (N := dx * dx + dy * dy) in *. set (A := ax * ax + ay * ay).
  assert (HA: 0 <= A) by (unfold A; pose proof (Qsq_nonneg ax); pose proof (Qsq_nonneg ay); lra).
  assert (HXX: 0 <= X * X) by apply Qsq_nonneg.
  assert (Htt: 0 <= t * t) by apply Qsq_nonneg.
  assert (Htol: 0 <= tol * tol) by apply Qsq_nonneg.
  (* (w w)(X X) <= (t^4/16)(X X) <= tol^2 N *)
  assert (S1: (w * w) * (X * X) <= (t * t * (1 # 4)) * (t * t * (1 # 4)) * (X * X)).
  { apply Qmult_le_compat_r; assumption. }
  assert (S2: (t * t * (1 # 4)) * (t * t * (1 # 4)) * (X * X) == (1 # 16) * ((t * t) * (t * t) * (X * X))) by ring.
  assert (S3: (w * w) * (X * X) <= (tol * tol) * N) by lra.
  assert (S4: 0 <= (t * t) * ((tol * tol) * N - (w * w) * (X * X))) by (apply Qmult_le_0_compat; lra).
  assert (S5: 0 <= (tol * tol) * ((t * t) * (4 * (t * Da) + (t * t) * A))).
  { apply Qmult_le_0_compat; [assumption|]. apply Qmult_le_0_compat; [assumption|].
    assert (0 <= t * Da) by (apply Qmult_le_0_compat; lra).
    assert (0 <= (t * t) * A) by (apply Qmult_le_0_compat; assumption). lra. }
  lra.
Qed.

Theorem flatten_step_rule_partial p0 p1 p2 tol t tau :
  step_rule_ok p0 p1 p2 tol t ->
  0 <= vdot (vsub p1 p0) (px p0 - 2 * px p1 + px p2, py p0 - 2 * py p1 + py p2) ->
  0 <= tau -> tau <= t ->
  let P := vsub (quadB p0 p1 p2 tau) p0 in
  let c := vsub (quadB p0 p1 p2 t) p0 in
  sqr (vcross P c) <= sqr tol * nrm2 c.
Proof.
  destruct p0 as [x0 y0], p1 as [x1 y1], p2 as [x2 y2].
  unfold step_rule_ok, nrm2, vdot, vsub, vcross, quadB, sqr, px, py. cbn [fst snd].
  intros [T0 [T1 Rule]] HDa U0 U1.
  pose proof (flatten_step_rule_scalar (x1 - x0) (y1 - y0) (x0 - 2 * x1 + x2) (y0 - 2 * y1 + y2) tol t tau) as H.
  cbv zeta in H.
  assert (R: t * t * (t * t) * (((x1 - x0) * (y0 - 2 * y1 + y2) - (y1 - y0) * (x0 - 2 * x1 + x2)) * ((x1 - x0) * (y0 - 2 * y1 + y2) - (y1 - y0) * (x0 - 2 * x1 + x2)))
             <= 16 * (tol * tol) * ((x1 - x0) * (x1 - x0) + (y1 - y0) * (y1 - y0))).
  { eapply Qle_trans; [|exact Rule]. apply Qle_lteq. right. ring. }
  specialize (H T0 T1 R HDa U0 U1).
  eapply Qle_trans; [|eapply Qle_trans; [exact H|]]; apply Qle_lteq; right; unfold bq; ring.
Qed.

(** the hypothesis is satisfiable on a non-trivial curve: M0 0 Q1 1 3 1 (a = (1,-1), D = (1,1): D.a = 0), tol 1/10, step 1/2 *)
Example flatten_step_rule_partial_ex :
  step_rule_ok (0, 0) (1, 1) (3, 1) (1 # 10) (1 # 2) /\
  0 <= vdot (vsub (1, 1) (0, 0)) (0 - 2 * 1 + 3, 0 - 2 * 1 + 1).
Proof. unfold step_rule_ok, nrm2, vdot, vsub, vcross, sqr, px, py. cbn [fst snd]. repeat split; vm_compute; congruence. Qed.

(** REFUTED without the hypothesis: the near-cusp quadratic M0 0 Q10 0.001 0 0.002 at tolerance 0.01.  The rule
    allows the full step t = 1 (the code flattens to the single segment p0 -> p2), but the curve point at 1/2 is
    (5, 0.001), further than 499 tol from every point of that segment. *)
Theorem flatten_step_rule_refuted :
  exists p0 p1 p2 tol, step_rule_ok p0 p1 p2 tol 1 /\
    forall lam, sqr (499 * tol) < dist2 (quadB p0 p1 p2 (1 # 2)) (lerp p0 p2 lam).
Proof.
  exists (0, 0), (10, 1 # 1000), (0, 2 # 1000), (1 # 100). split.
  - unfold step_rule_ok, nrm2, vdot, vsub, vcross, sqr, px, py. cbn [fst snd]. repeat split; vm_compute; congruence.
  - intros lam. unfold dist2, nrm2, vdot, vsub, quadB, lerp, lerp1, bq, sqr, px, py. cbn [fst snd].
    set (y := (0 * (1 - (1 # 2)) * (1 - (1 # 2)) + 2 * (1 # 1000) * (1 # 2) * (1 - (1 # 2)) + (2 # 1000) * (1 # 2) * (1 # 2) - (0 + ((2 # 1000) - 0) * lam))).
    pose proof (Qsq_nonneg y).
    assert (E: 0 * (1 - (1 # 2)) * (1 - (1 # 2)) + 2 * 10 * (1 # 2) * (1 - (1 # 2)) + 0 * (1 # 2) * (1 # 2) - (0 + (0 - 0) * lam) == 5) by ring.
    rewrite E. assert (E2: 499 * (1 # 100) * (499 * (1 # 100)) == 249001 # 10000) by reflexivity. rewrite E2.
    assert (E3: 5 * 5 == 25) by reflexivity. lra.
Qed.

(** the same witness is rejected by the checker for K = 2 (and any K below 499) *)
Example near_cusp_rejected :
  chk_flat_quad (0, 0) (10, 1 # 1000) (0, 2 # 1000) [0; 1] [(0, 0); (0, 2 # 1000)] (1 # 100) 2 (1 # 262144) = false.
Proof. vm_compute. reflexivity. Qed.

(** the checkers accept non-trivial certificates (their hypotheses are satisfiable): the parabola M0 0 Q1 1 2 0 cut
    at 1/4, 1/2, 3/4 (deviation 1/32 per piece) at tolerance 1/16, and a cubic arch cut in four *)
Example chk_flat_quad_accepts :
  chk_flat_quad (0, 0) (1, 1) (2, 0) [0; 1 # 4; 1 # 2; 3 # 4; 1]
    [(0, 0); (1 # 2, 3 # 8); (1, 1 # 2); (3 # 2, 3 # 8); (2, 0)] (1 # 16) 1 0 = true.
Proof. vm_compute. reflexivity. Qed.

Example chk_flat_cube_accepts :
  chk_flat_cube (0, 0) (0, 1) (3, 1) (3, 0) [0; 1 # 4; 1 # 2; 3 # 4; 1]
    [(0, 0); (15 # 32, 9 # 16); (3 # 2, 3 # 4); (81 # 32, 9 # 16); (3, 0)] (1 # 8) 1 0 = true.
Proof. vm_compute. reflexivity. Qed.

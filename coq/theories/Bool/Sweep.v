(** C01/C02 — decision core of the Bentley-Ottmann sweep (path_intersection.go:1564-1705):
    [compute_fields] = SweepPoint.computeSweepFields, [in_result] = SweepPoint.InResult,
    [merge_overlapping] = SweepPoint.mergeOverlapping, on a *status column*: the list of left endpoints
    ordered bottom-to-top, each linked to the one below through [prev]. *)
From Coq Require Import ZArith List Bool Lia.
From CV Require Import Geom.Winding Bool.Region.
Import ListNotations.
Open Scope Z_scope.

Record sseg := mkS {
  sClip : bool;       (* clipping path (otherwise subject) *)
  sOpen : bool;       (* open subject path *)
  sVert : bool;       (* vertical segment *)
  sInc : bool;        (* original direction is left-right / bottom-top *)
  sPos : Z;           (* identifies the pair of endpoints: equal ids = coincident segments *)
  (* fields *)
  sW : Z; sOW : Z; sSelf : Z; sOSelf : Z; sIn : Z; sOverlapped : bool }.

Definition set_fields (s : sseg) (w ow self oself inr : Z) (ov : bool) : sseg :=
  mkS (sClip s) (sOpen s) (sVert s) (sInc s) (sPos s) w ow self oself inr ov.

(** InResult (path_intersection.go:1599-1656) *)
Definition in_result (s : sseg) (op rule : Z) : Z :=
  let lowerW := sW s in let lowerOW := sOW s in
  let upperW := sW s + sSelf s in let upperOW := sOW s + sOSelf s in
  let '(lowerW, lowerOW, upperW, upperOW) :=
    if sClip s then (lowerOW, lowerW, upperOW, upperW) else (lowerW, lowerOW, upperW, upperOW) in
  if sOpen s then
    if (op =? 0) || (op =? 2) || (op =? 5) then 1
    else if op =? 1 then (if fills rule lowerOW || fills rule upperOW then 1 else 0)
    else if (op =? 3) || (op =? 4) then (if negb (fills rule lowerOW) || negb (fills rule upperOW) then 1 else 0)
    else 0
  else if op =? 5 then
    let b := fills rule lowerW in let a := fills rule upperW in
    if b && a then 2 else if b || a then 1 else 0
  else if (0 <=? op) && (op <=? 4) then
    let b := bop op (fills rule lowerW) (fills rule lowerOW) in
    let a := bop op (fills rule upperW) (fills rule upperOW) in
    if negb (Bool.eqb b a) then 1 else 0
  else 0.

(** the chain below the current segment is the list of already processed segments, nearest first *)
Fixpoint skip_vertical (below : list sseg) : option sseg :=
  match below with
  | [] => None
  | p :: rest => if sVert p then skip_vertical rest else Some p
  end.

(** computeSweepFields (path_intersection.go:1564-1597) *)
Definition compute_fields (cur : sseg) (below : list sseg) (op rule : Z) : sseg :=
  let self := if sOpen cur then sSelf cur else (if sInc cur then 1 else -1) in
  let '(w, ow) :=
    match skip_vertical below with
    | None => (0, 0)
    | Some p =>
      if Bool.eqb (sClip cur) (sClip p) then (sW p + sSelf p, sOW p + sOSelf p)
      else (sOW p + sOSelf p, sW p + sSelf p)
    end in
  let c := set_fields cur w ow self (sOSelf cur) 0 (sOverlapped cur) in
  set_fields c w ow self (sOSelf cur) (in_result c op rule) (sOverlapped cur).

(** process a column bottom-to-top; the accumulator holds the processed segments, nearest first *)
Definition propagate (col : list sseg) (op rule : Z) : list sseg :=
  rev (fold_left (fun below cur => compute_fields cur below op rule :: below) col []).

(** mergeOverlapping (path_intersection.go:1658-1705) for the segment [s] with the chain [below]
    (nearest first).  Returns the updated s and the updated chain. *)
Fixpoint merge_walk (s : sseg) (below : list sseg) : sseg * list sseg * list sseg :=
  (* returns (s', merged-and-zeroed prefix, untouched rest) *)
  match below with
  | [] => (s, [], [])
  | p :: rest =>
    if sOverlapped p || negb (sPos s =? sPos p) then (s, [], below)
    else
      let s' := if Bool.eqb (sClip s) (sClip p)
                then set_fields s (sW s) (sOW s) (sSelf s + sSelf p) (sOSelf s + sOSelf p) (sIn s) (sOverlapped s)
                else set_fields s (sW s) (sOW s) (sSelf s + sOSelf p) (sOSelf s + sSelf p) (sIn s) (sOverlapped s) in
      let p' := set_fields p 0 0 0 0 0 true in
      let '(s'', merged, rest') := merge_walk s' rest in
      (s'', p' :: merged, rest')
  end.

(** returns (s', merged segments (zeroed, overlapped), chain now below s' through its prev pointer) *)
Definition merge_overlapping (s : sseg) (below : list sseg) (op rule : Z) : sseg * list sseg * list sseg :=
  if sOverlapped s then (s, [], below)
  else
    let '(s', merged, rest) := merge_walk s below in
    match merged with
    | [] => (s, [], below)
    | _ =>
      let '(w, ow) :=
        match rest with
        | [] => (0, 0)
        | p :: _ =>
          if Bool.eqb (sClip s') (sClip p) then (sW p + sSelf p, sOW p + sOSelf p)
          else (sOW p + sOSelf p, sW p + sSelf p)
        end in
      let c := set_fields s' w ow (sSelf s') (sOSelf s') 0 (sOverlapped s') in
      (set_fields c w ow (sSelf s') (sOSelf s') (in_result c op rule) (sOverlapped s'), merged, rest)
    end.

(* ------------------------------------------------------------------ pointer form: any ORDER of merges *)

(** The right endpoints of coincident segments are processed in whatever order the event queue yields, so
    mergeOverlapping runs on the members of a bundle in any order and walks the [prev] links that earlier
    merges have already redirected.  [pcol] is the column bottom-to-top with the explicit prev link of every
    segment (index into the column). *)
Definition pcol := list (sseg * option nat).

Fixpoint link_from (i : nat) (m : list sseg) : pcol :=
  match m with
  | [] => []
  | s :: r => (s, match i with O => None | S j => Some j end) :: link_from (S i) r
  end.
Definition link (m : list sseg) : pcol := link_from 0 m.

Fixpoint pupdate (col : pcol) (i : nat) (x : sseg * option nat) : pcol :=
  match col, i with
  | [], _ => []
  | _ :: r, O => x :: r
  | y :: r, S j => y :: pupdate r j x
  end.

Definition onat_eqb (a b : option nat) : bool :=
  match a, b with None, None => true | Some x, Some y => Nat.eqb x y | _, _ => false end.

(** the loop of mergeOverlapping: follows prev links from [cur], absorbing coincident not yet overlapped segments *)
Fixpoint pwalk (fuel : nat) (col : pcol) (s : sseg) (cur : option nat) : pcol * sseg * option nat :=
  match fuel with
  | O => (col, s, cur)
  | S f =>
    match cur with
    | None => (col, s, None)
    | Some i =>
      match nth_error col i with
      | None => (col, s, cur)
      | Some (p, pp) =>
        if sOverlapped p || negb (sPos s =? sPos p) then (col, s, cur)
        else
          let s' := if Bool.eqb (sClip s) (sClip p)
                    then set_fields s (sW s) (sOW s) (sSelf s + sSelf p) (sOSelf s + sOSelf p) (sIn s) (sOverlapped s)
                    else set_fields s (sW s) (sOW s) (sSelf s + sOSelf p) (sOSelf s + sSelf p) (sIn s) (sOverlapped s) in
          pwalk f (pupdate col i (set_fields p 0 0 0 0 0 true, pp)) s' pp
      end
    end
  end.

(** mergeOverlapping on segment [k] of the column *)
Definition merge_at (col : pcol) (k : nat) (op rule : Z) : pcol :=
  match nth_error col k with
  | None => col
  | Some (s, sp) =>
    if sOverlapped s then col
    else
      let '(col', s', stop) := pwalk (length col) col s sp in
      if onat_eqb stop sp then col
      else
        let '(w, ow) :=
          match stop with
          | None => (0, 0)
          | Some j =>
            match nth_error col' j with
            | None => (0, 0)
            | Some (p, _) =>
              if Bool.eqb (sClip s') (sClip p) then (sW p + sSelf p, sOW p + sOSelf p)
              else (sOW p + sOSelf p, sW p + sSelf p)
            end
          end in
        let c := set_fields s' w ow (sSelf s') (sOSelf s') 0 (sOverlapped s') in
        pupdate col' k (set_fields c w ow (sSelf s') (sOSelf s') (in_result c op rule) (sOverlapped s'), stop)
  end.

Definition merge_seq (col : pcol) (ks : list nat) (op rule : Z) : pcol :=
  fold_left (fun c k => merge_at c k op rule) ks col.

(* ------------------------------------------------------------------ what the fields mean *)

(** total winding contribution of kind [c] (false = subject, true = clipping) of the non-vertical
    segments of a chain *)
Definition contrib (c : bool) (p : sseg) : Z :=
  if sVert p then 0 else if Bool.eqb (sClip p) c then sSelf p else sOSelf p.

Definition total (c : bool) (l : list sseg) : Z := zsum (map (contrib c) l).

(** windings of subject / clipping in the gap just below and just above a segment, read off its fields *)
Definition lower_of (c : bool) (s : sseg) : Z := if Bool.eqb (sClip s) c then sW s else sOW s.
Definition upper_of (c : bool) (s : sseg) : Z :=
  if Bool.eqb (sClip s) c then sW s + sSelf s else sOW s + sOSelf s.

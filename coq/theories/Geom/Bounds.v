(** Bounding boxes of path segments over Q (C08).
    - [chkq]/[chkc]: certified containment of a whole quadratic / cubic coordinate function in an interval
      (hull test, else split at 1/2 and recurse) — definitions here, soundness in Geom/BoundsProofs.v;
    - the per-command arms of Path.FastBounds (hand model; Gen/FastBoundsGen.v is bridged to it);
    - the quadratic arm of Path.Bounds (vertex parameter). *)
From Coq Require Import QArith Qminmax Qabs List Bool.
From CV Require Import Base.Dy Geom.Matrix Geom.Bezier.
Import ListNotations.
Open Scope Q_scope.

Definition inb (lo hi x : Q) : bool := Qle_bool lo x && Qle_bool x hi.

(** certified interval containment of a quadratic / cubic coordinate on [0,1] *)
Fixpoint chkq (fuel : nat) (lo hi a b c : Q) : bool :=
  if inb lo hi a && inb lo hi b && inb lo hi c then true
  else match fuel with
       | O => false
       | S f =>
           if negb (inb lo hi a && inb lo hi c) then false else   (* an end point (a point of the curve) is outside: reject at once *)
           let '(a1, b1, c1) := qsplit_l a b c (1#2) in
           let '(a2, b2, c2) := qsplit_r a b c (1#2) in
           chkq f lo hi (Qred a1) (Qred b1) (Qred c1) && chkq f lo hi (Qred a2) (Qred b2) (Qred c2)
       end.

Fixpoint chkc (fuel : nat) (lo hi a b c d : Q) : bool :=
  if inb lo hi a && inb lo hi b && inb lo hi c && inb lo hi d then true
  else match fuel with
       | O => false
       | S f =>
           if negb (inb lo hi a && inb lo hi d) then false else
           let '(a1, b1, c1, d1) := csplit_l a b c d (1#2) in
           let '(a2, b2, c2, d2) := csplit_r a b c d (1#2) in
           chkc f lo hi (Qred a1) (Qred b1) (Qred c1) (Qred d1) && chkc f lo hi (Qred a2) (Qred b2) (Qred c2) (Qred d2)
       end.

(** boxes *)
Record box := mkB { bx0 : Q; by0 : Q; bx1 : Q; by1 : Q }.
Definition in_box (b : box) (p : qpt) : Prop := bx0 b <= fst p <= bx1 b /\ by0 b <= snd p <= by1 b.
Definition in_boxb (b : box) (p : qpt) : bool := inb (bx0 b) (bx1 b) (fst p) && inb (by0 b) (by1 b) (snd p).
Definition box_sub (a b : box) : Prop := bx0 b <= bx0 a /\ by0 b <= by0 a /\ bx1 a <= bx1 b /\ by1 a <= by1 b.   (* a inside b *)
Definition grow (b : box) (e : Q) : box := mkB (bx0 b - e) (by0 b - e) (bx1 b + e) (by1 b + e).

(** chk_contains fuel box ctrl: every point of the segment with control polygon ctrl (2, 3 or 4 points) is in the box *)
Definition chk_contains (fuel : nat) (b : box) (ctrl : list qpt) : bool :=
  match ctrl with
  | [p0; p1] => in_boxb b p0 && in_boxb b p1
  | [p0; p1; p2] => chkq fuel (bx0 b) (bx1 b) (fst p0) (fst p1) (fst p2) && chkq fuel (by0 b) (by1 b) (snd p0) (snd p1) (snd p2)
  | [p0; p1; p2; p3] =>
      chkc fuel (bx0 b) (bx1 b) (fst p0) (fst p1) (fst p2) (fst p3) && chkc fuel (by0 b) (by1 b) (snd p0) (snd p1) (snd p2) (snd p3)
  | _ => false
  end.

(** chk_touch: the point of the segment at the reported parameter t lies on the given side within slack e.
    side: 0 left (x0), 1 bottom (y0), 2 right (x1), 3 top (y1) *)
Definition side_val (b : box) (side : Z) : Q :=
  if (side =? 0)%Z then bx0 b else if (side =? 1)%Z then by0 b else if (side =? 2)%Z then bx1 b else by1 b.
Definition coord (side : Z) (p : qpt) : Q := if (side =? 0)%Z || (side =? 2)%Z then fst p else snd p.
Definition chk_touch (e : Q) (b : box) (side : Z) (ctrl : list qpt) (t : Q) : bool :=
  match bez ctrl t with
  | Some p => Qle_bool 0 t && Qle_bool t 1 && Qle_bool (Qabs (coord side p - side_val b side)) e
  | None => false
  end.

(** ---------------------------------------------------------------------------------------------------
    Path.FastBounds, per-command arms (path.go).  State: running box; [s] is the current point. *)
Definition fb_line (xmin xmax ymin ymax : Q) (e : qpt) : Q * Q * Q * Q :=
  (Qmin xmin (fst e), Qmax xmax (fst e), Qmin ymin (snd e), Qmax ymax (snd e)).
Definition fb_quad (xmin xmax ymin ymax : Q) (cp e : qpt) : Q * Q * Q * Q :=
  (Qmin xmin (Qmin (fst cp) (fst e)), Qmax xmax (Qmax (fst cp) (fst e)),
   Qmin ymin (Qmin (snd cp) (snd e)), Qmax ymax (Qmax (snd cp) (snd e))).
Definition fb_cube (xmin xmax ymin ymax : Q) (cp1 cp2 e : qpt) : Q * Q * Q * Q :=
  (Qmin xmin (Qmin (fst cp1) (Qmin (fst cp2) (fst e))), Qmax xmax (Qmax (fst cp1) (Qmax (fst cp2) (fst e))),
   Qmin ymin (Qmin (snd cp1) (Qmin (snd cp2) (snd e))), Qmax ymax (Qmax (snd cp1) (Qmax (snd cp2) (snd e)))).
(** the cubic arm as it was on the unchanged tree (commit 31d4c8a / c5c8c72): Max(cp1, Min(cp2, end)) — recorded
    verbatim for [fastbounds_cubic_refuted] *)
Definition fb_cube_unfixed (xmin xmax ymin ymax : Q) (cp1 cp2 e : qpt) : Q * Q * Q * Q :=
  (Qmin xmin (Qmin (fst cp1) (Qmin (fst cp2) (fst e))), Qmax xmax (Qmax (fst cp1) (Qmin (fst cp2) (fst e))),
   Qmin ymin (Qmin (snd cp1) (Qmin (snd cp2) (snd e))), Qmax ymax (Qmax (snd cp1) (Qmin (snd cp2) (snd e)))).
(** the arc arm: centre (supplied: ellipseToCenter is not modelled) +- max(rx, ry) *)
Definition fb_arc (xmin xmax ymin ymax : Q) (c : qpt) (rx ry : Q) (e : qpt) : Q * Q * Q * Q :=
  let r := Qmax rx ry in
  (Qmin xmin (fst c - r), Qmax xmax (fst c + r), Qmin ymin (snd c - r), Qmax ymax (snd c + r)).

Definition box_of (q : Q * Q * Q * Q) : box := let '(x0, x1, y0, y1) := q in mkB x0 y0 x1 y1.

(** model of a path for the bounds loops *)
Inductive bseg :=
| BL (e : qpt)                       (* MoveTo / LineTo / Close *)
| BQ (cp e : qpt)
| BC (cp1 cp2 e : qpt).

Definition seg_end (s : bseg) : qpt := match s with BL e => e | BQ _ e => e | BC _ _ e => e end.
Definition seg_ctrl (start : qpt) (s : bseg) : list qpt :=
  match s with BL e => [start; e] | BQ cp e => [start; cp; e] | BC c1 c2 e => [start; c1; c2; e] end.
Definition fb_step (st : Q * Q * Q * Q) (s : bseg) : Q * Q * Q * Q :=
  let '(x0, x1, y0, y1) := st in
  match s with BL e => fb_line x0 x1 y0 y1 e | BQ cp e => fb_quad x0 x1 y0 y1 cp e | BC c1 c2 e => fb_cube x0 x1 y0 y1 c1 c2 e end.

(** FastBounds of M start followed by the segments *)
Fixpoint fb_loop (st : Q * Q * Q * Q) (segs : list bseg) : Q * Q * Q * Q :=
  match segs with [] => st | s :: r => fb_loop (fb_step st s) r end.
Definition fast_bounds (start : qpt) (segs : list bseg) : box :=
  box_of (fb_loop (fst start, fst start, snd start, snd start) segs).

(** the points of a path: some segment, some parameter in [0,1] *)
Fixpoint on_path (start : qpt) (segs : list bseg) (X : qpt) : Prop :=
  match segs with
  | [] => False
  | s :: r => (exists t, 0 <= t <= 1 /\ opteq (bez (seg_ctrl start s) t) (Some X)) \/ on_path (seg_end s) r X
  end.

(** ---------------------------------------------------------------------------------------------------
    Path.Bounds, quadratic arm in one coordinate: end value, and the vertex value when the vertex parameter
    t* = (a - b) / (a - 2b + c) lies strictly inside (0,1).  (The Go code tests Equal(tdenom, 0) and
    IntervalExclusive(t, 0, 1) with Epsilon; the model is exact.)  [a] is the start value, already in the box. *)
Definition bq_tden (a b c : Q) : Q := a - 2 * b + c.
Definition bq_lo (a b c : Q) : Q :=
  let m := Qmin a c in
  if Qeq_bool (bq_tden a b c) 0 then m
  else let t := (a - b) / bq_tden a b c in
       if Qltb 0 t && Qltb t 1 then Qmin m (bquad a b c t) else m.
Definition bq_hi (a b c : Q) : Q :=
  let m := Qmax a c in
  if Qeq_bool (bq_tden a b c) 0 then m
  else let t := (a - b) / bq_tden a b c in
       if Qltb 0 t && Qltb t 1 then Qmax m (bquad a b c t) else m.

(** (b) Format semantics of SVG path data (SVG 1.1 §8.3, SVG 2 §9.3): what a path string DENOTES, as a list of
    geometry pieces with absolute coordinates.  Written from the grammar, independent of the Go parser and
    of the builder: absolute/relative commands, H/V, S/T reflection of the previous control point (only
    directly after C/S resp. Q/T), implicit repetition of the argument sequence (after M: implicit L),
    arc flags as single characters that need no separator ("A1 1 0 01 2 3"), optional comma/white space.
    The path data must start with a moveto.  Numbers follow the SVG number grammar (sign, digits with one
    optional dot, optional exponent with digits) = the prefix [Decimal.parse_float] reads; separators are
    read leniently (any run of white space and commas).  [None] = not in the language. *)
From Coq Require Import ZArith QArith List Bool.
From CV Require Import PathEnc.Enc Formats.Decimal Formats.Geo Formats.SvgPath.
Import ListNotations.
Open Scope Q_scope.

Fixpoint drop_ws (b : list Z) : list Z :=
  match b with c :: r => if is_ws c then drop_ws r else b | [] => [] end.

(** read [k] arguments of command [CMD]; returns values and the rest *)
Fixpoint sem_args (CMD : Z) (k j : nat) (b : list Z) (acc : list Q) : option (list Q * list Z) :=
  match k with
  | O => Some (rev acc, b)
  | S k' =>
    let b := drop_ws b in
    if (CMD =? 65)%Z && ((j =? 3)%nat || (j =? 4)%nat) then
      match b with
      | c :: r => if (c =? 48)%Z then sem_args CMD k' (S j) r (0 :: acc)
                  else if (c =? 49)%Z then sem_args CMD k' (S j) r (1 :: acc) else None
      | [] => None
      end
    else
      let r := parse_float b in
      match pf_len r, pf_value r with
      | O, _ => None
      | n, Some v => sem_args CMD k' (S j) (skipn n b) (v :: acc)
      | _, None => None
      end
  end.

Record sst := mkSS { ss_cur : pt; ss_start : pt; ss_c : pt; ss_q : pt; ss_prevU : Z }.

Definition sem_cmd (cmd : Z) (fs : list Q) (st : sst) : option (gp * sst) :=
  let rel := (97 <=? cmd)%Z in
  let cur := ss_cur st in
  let ab (p : pt) := if rel then padd p cur else p in
  let f := fnth fs in
  let CMD := upper cmd in
  if (CMD =? 77)%Z then let p := ab (f 0%nat, f 1%nat) in Some (GMove p, mkSS p p p p CMD)
  else if (CMD =? 90)%Z then Some (GClose cur (ss_start st), mkSS (ss_start st) (ss_start st) (ss_start st) (ss_start st) CMD)
  else if (CMD =? 76)%Z then let p := ab (f 0%nat, f 1%nat) in Some (GLine cur p, mkSS p (ss_start st) p p CMD)
  else if (CMD =? 72)%Z then let p := ((if rel then f 0%nat + fst cur else f 0%nat), snd cur) in
                             Some (GLine cur p, mkSS p (ss_start st) p p CMD)
  else if (CMD =? 86)%Z then let p := (fst cur, (if rel then f 0%nat + snd cur else f 0%nat)) in
                             Some (GLine cur p, mkSS p (ss_start st) p p CMD)
  else if (CMD =? 67)%Z then
    let c1 := ab (f 0%nat, f 1%nat) in let c2 := ab (f 2%nat, f 3%nat) in let p := ab (f 4%nat, f 5%nat) in
    Some (GCube cur c1 c2 p, mkSS p (ss_start st) c2 p CMD)
  else if (CMD =? 83)%Z then
    let c2 := ab (f 0%nat, f 1%nat) in let p := ab (f 2%nat, f 3%nat) in
    let c1 := if ((ss_prevU st =? 67) || (ss_prevU st =? 83))%Z then refl cur (ss_c st) else cur in
    Some (GCube cur c1 c2 p, mkSS p (ss_start st) c2 p CMD)
  else if (CMD =? 81)%Z then
    let c := ab (f 0%nat, f 1%nat) in let p := ab (f 2%nat, f 3%nat) in
    Some (GQuad cur c p, mkSS p (ss_start st) p c CMD)
  else if (CMD =? 84)%Z then
    let p := ab (f 0%nat, f 1%nat) in
    let c := if ((ss_prevU st =? 81) || (ss_prevU st =? 84))%Z then refl cur (ss_q st) else cur in
    Some (GQuad cur c p, mkSS p (ss_start st) p c CMD)
  else if (CMD =? 65)%Z then
    let p := ab (f 5%nat, f 6%nat) in
    Some (GArcE cur (f 0%nat) (f 1%nat) (f 2%nat) (Qeq_bool (f 3%nat) 1) (Qeq_bool (f 4%nat) 1) p, mkSS p (ss_start st) p p CMD)
  else None.

Fixpoint sem_loop (fuel : nat) (b : list Z) (st : sst) (cmd : Z) (first : bool) : option (list gp) :=
  match fuel with
  | O => None
  | S fuel' =>
    match drop_ws b with
    | [] => Some []
    | c :: r =>
      let '(cmd1, b1, explicit) := if numeric_start c then (cmd, c :: r, false) else (c, r, true) in
      if negb (known_cmd cmd1) then None
      else if first && negb (upper cmd1 =? 77)%Z then None
      else if negb explicit && (upper cmd1 =? 90)%Z then None            (* a number directly after closepath *)
      else
        match sem_args (upper cmd1) (nargs (upper cmd1)) 0 b1 [] with
        | None => None
        | Some (fs, b2) =>
          match sem_cmd cmd1 fs st with
          | None => None
          | Some (g, st') =>
            let next := if (cmd1 =? 77)%Z then 76%Z else if (cmd1 =? 109)%Z then 108%Z else cmd1 in
            option_map (cons g) (sem_loop fuel' b2 st' next false)
          end
        end
    end
  end.

Definition svg_path_sem (b : list Z) : option (list gp) :=
  sem_loop (S (length b)) b (mkSS (0, 0) (0, 0) (0, 0) (0, 0) 0%Z) 90%Z true.

Example sem_ex : svg_path_sem [77; 49; 32; 50; 104; 51; 118; 45; 49; 122]%Z   (* "M1 2h3v-1z" *)
  = Some [GMove (1, 2#1); GLine (1, 2#1) (3 + 1, 2#1); GLine (3 + 1, 2#1) (3 + 1, -1 + (2#1)); GClose (3 + 1, -1 + (2#1)) (1, 2#1)].
Proof. vm_compute. reflexivity. Qed.

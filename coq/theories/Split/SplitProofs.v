(** C09 — winding number under reversal, soundness of the sub-curve checker and of the square-root brackets,
    refutation witness for SplitAt on multi-subpath paths (unchanged tree) and the corresponding fact after the fix. *)
From Coq Require Import ZArith QArith Qabs List Bool Lia Lqa.
From CV Require Import Geom.Winding Geom.WindingProofs.
From CV Require Import Geom.Matrix Geom.Bezier Split.Cert.
From CV Require PathEnc.Enc Split.SplitAt.
Import ListNotations.

(* ---- winding number of a reversed polygon -------------------------------------------------------- *)
Open Scope Z_scope.

(** sum of f over the consecutive pairs of a list *)
Fixpoint chain (f : Winding.pt -> Winding.pt -> Z) (l : list Winding.pt) : Z :=
  match l with a :: ((b :: _) as r) => f a b + chain f r | _ => 0 end.

Lemma chain_snoc f l : forall a x, chain f ((a :: l) ++ [x]) = chain f (a :: l) + f (last (a :: l) a) x.
Proof.
  induction l as [|b l IH]; intros a x.
  - cbn. lia.
  - change (((a :: b :: l) ++ [x])) with (a :: ((b :: l) ++ [x])).
    change (chain f (a :: (b :: l) ++ [x])) with (f a b + chain f ((b :: l) ++ [x])).
    rewrite IH. cbn [chain]. 
    replace (last (a :: b :: l) a) with (last (b :: l) b); [lia|].
    clear. revert b. induction l as [|c l IH]; intro b; [reflexivity|]. 
    change (last (b :: c :: l) b) with (last (c :: l) b). change (last (a :: b :: c :: l) a) with (last (c :: l) a).
    clear. revert c. induction l as [|d l IH]; intro c; [reflexivity|]. apply IH.
Qed.

Lemma chain_rev f l : chain f (rev l) = chain (fun a b => f b a) l.
Proof.
  induction l as [|a l IH]; [reflexivity|].
  cbn [rev]. destruct l as [|b l'].
  - reflexivity.
  - destruct (rev (b :: l')) as [|z rz] eqn:E.
    + exfalso. apply (f_equal (@length _)) in E. rewrite rev_length in E. cbn in E. lia.
    + rewrite chain_snoc. rewrite <- E in *. rewrite IH. cbn [chain].
      assert (last (rev (b :: l')) z = b).
      { cbn [rev]. rewrite last_last. reflexivity. }
      rewrite E in H at 1. rewrite E. rewrite H. lia.
Qed.

Lemma edges_chain g vs : forall a z,
  zsum (map (fun e => g (fst e) (snd e)) (combine (a :: vs) (vs ++ [z]))) = chain g (a :: vs ++ [z]).
Proof.
  induction vs as [|b vs IH]; intros a z.
  - cbn. lia.
  - change (zsum (map (fun e => g (fst e) (snd e)) (combine (a :: b :: vs) ((b :: vs) ++ [z]))))
      with (g a b + zsum (map (fun e => g (fst e) (snd e)) (combine (b :: vs) (vs ++ [z])))).
    rewrite IH. reflexivity.
Qed.

Lemma wn_contour_chain v0 vs p : wn_contour (v0 :: vs) p = chain (edge_w p) (v0 :: vs ++ [v0]).
Proof. unfold wn_contour, edges, rot1. apply (edges_chain (edge_w p)). Qed.

Lemma chain_ext f g l : (forall a b, In a l -> In b l -> f a b = g a b) -> chain f l = chain g l.
Proof.
  induction l as [|a l IH]; intro H; [reflexivity|]. destruct l as [|b l']; [reflexivity|].
  cbn [chain]. rewrite H by (cbn; auto). f_equal. apply IH. intros x y Hx Hy. apply H; right; assumption.
Qed.

Lemma chain_opp f l : chain (fun a b => - f a b) l = - chain f l.
Proof.
  induction l as [|a l IH]; [reflexivity|]. destruct l as [|b l']; [reflexivity|].
  change (chain (fun a b => - f a b) (a :: b :: l')) with (- f a b + chain (fun a b => - f a b) (b :: l')).
  change (chain f (a :: b :: l')) with (f a b + chain f (b :: l')). rewrite IH. lia.
Qed.

(** wn_reverse: Reverse turns the closed polygon v0 v1 .. vn into v0 vn .. v1 (ReverseProofs.reverse_closed_polygon);
    its winding number around every point that is not level with a vertex is negated *)
Theorem wn_reverse_contour v0 vs p : (forall v, In v (v0 :: vs) -> snd p <> snd v) ->
  wn_contour (v0 :: rev vs) p = - wn_contour (v0 :: vs) p.
Proof.
  intro Hl. rewrite !wn_contour_chain.
  assert (E : v0 :: rev vs ++ [v0] = rev (v0 :: vs ++ [v0])).
  { change (v0 :: vs ++ [v0]) with ((v0 :: vs) ++ [v0]). rewrite rev_app_distr. cbn [rev app]. reflexivity. }
  etransitivity; [exact (f_equal (chain (edge_w p)) E)|].
  rewrite chain_rev. rewrite <- chain_opp. apply chain_ext.
  intros a b Ha Hb. apply edge_w_reverse.
  - apply Hl. change (v0 :: vs ++ [v0]) with ((v0 :: vs) ++ [v0]) in Ha. apply in_app_or in Ha.
    destruct Ha as [Ha|[Ha|[]]]; [exact Ha|subst; left; reflexivity].
  - apply Hl. change (v0 :: vs ++ [v0]) with ((v0 :: vs) ++ [v0]) in Hb. apply in_app_or in Hb.
    destruct Hb as [Hb|[Hb|[]]]; [exact Hb|subst; left; reflexivity].
Qed.

Example wn_reverse_ex : wn_contour [(0, 0); (0, 4); (4, 4); (4, 0)] (1, 1) = - wn_contour [(0, 0); (4, 0); (4, 4); (0, 4)] (1, 1)
                        /\ wn_contour [(0, 0); (4, 0); (4, 4); (0, 4)] (1, 1) = 1.
Proof. vm_compute. split; reflexivity. Qed.

Close Scope Z_scope.
Open Scope Q_scope.

(* ---- sub-curve checker --------------------------------------------------------------------------- *)

Lemma nearb_near sl p q : nearb sl p q = true -> near sl p q.
Proof.
  unfold nearb, near. intro H. repeat (apply andb_prop in H; destruct H as [H ?]).
  repeat match goal with H : Qle_bool _ _ = true |- _ => apply Qle_bool_iff in H end. lra.
Qed.

(** subcurve_cert_sound (cubic; the quadratic and linear cases are sub2_eval / sub1_eval with the same proof):
    if the checker accepts piece' = [a';b';c';d'] as sub-curve [s,u] of [a;b;c;d] with slack sl, then for EVERY
    parameter t in [0,1] the piece at t is within sl (per coordinate) of the input segment at s + t(u-s),
    and 0 <= s <= u <= 1. *)
Theorem sub_ok_sound_cubic sl a b c d a' b' c' d' s u :
  sub_ok sl [a; b; c; d] [a'; b'; c'; d'] s u = true ->
  0 <= s /\ s <= u /\ u <= 1 /\
  forall t, 0 <= t <= 1 -> near sl (Bcube a' b' c' d' t) (Bcube a b c d (s + t * (u - s))).
Proof.
  unfold sub_ok. intro H. repeat (apply andb_prop in H; destruct H as [H ?]).
  repeat match goal with H : Qle_bool _ _ = true |- _ => apply Qle_bool_iff in H end.
  split; [assumption|]. split; [assumption|]. split; [assumption|].
  intros tt Ht. cbn [sub_ctrl all2] in *.
  destruct (sub3 (fst a) (fst b) (fst c) (fst d) s u) as [[[x0 x1] x2] x3] eqn:EX.
  destruct (sub3 (snd a) (snd b) (snd c) (snd d) s u) as [[[y0 y1] y2] y3] eqn:EY.
  cbn [all2] in *.
  repeat match goal with H : _ && _ = true |- _ => apply andb_prop in H; destruct H end.
  repeat match goal with H : nearb _ _ _ = true |- _ => apply nearb_near in H end.
  unfold near in *. cbn [fst snd Bcube] in *.
  pose proof (sub3_eval (fst a) (fst b) (fst c) (fst d) s u tt) as EvX. rewrite EX in EvX.
  pose proof (sub3_eval (snd a) (snd b) (snd c) (snd d) s u tt) as EvY. rewrite EY in EvY.
  rewrite <- EvX, <- EvY.
  split; apply bcube_perturb; try assumption; intuition.
Qed.

Theorem sub_ok_sound_quad sl a b c a' b' c' s u :
  sub_ok sl [a; b; c] [a'; b'; c'] s u = true ->
  0 <= s /\ s <= u /\ u <= 1 /\
  forall t, 0 <= t <= 1 -> near sl (Bquad a' b' c' t) (Bquad a b c (s + t * (u - s))).
Proof.
  unfold sub_ok. intro H. repeat (apply andb_prop in H; destruct H as [H ?]).
  repeat match goal with H : Qle_bool _ _ = true |- _ => apply Qle_bool_iff in H end.
  split; [assumption|]. split; [assumption|]. split; [assumption|].
  intros tt Ht. cbn [sub_ctrl all2] in *.
  destruct (sub2 (fst a) (fst b) (fst c) s u) as [[x0 x1] x2] eqn:EX.
  destruct (sub2 (snd a) (snd b) (snd c) s u) as [[y0 y1] y2] eqn:EY.
  cbn [all2] in *.
  repeat match goal with H : _ && _ = true |- _ => apply andb_prop in H; destruct H end.
  repeat match goal with H : nearb _ _ _ = true |- _ => apply nearb_near in H end.
  unfold near in *. cbn [fst snd Bquad] in *.
  pose proof (sub2_eval (fst a) (fst b) (fst c) s u tt) as EvX. rewrite EX in EvX.
  pose proof (sub2_eval (snd a) (snd b) (snd c) s u tt) as EvY. rewrite EY in EvY.
  rewrite <- EvX, <- EvY.
  split; apply bquad_perturb; try assumption; intuition.
Qed.

Example sub_ok_ex : sub_ok 0 [(0, 0); (1, 2); (3, 2); (4, 0)] (sub_ctrl [(0, 0); (1, 2); (3, 2); (4, 0)] (1 # 4) (3 # 4)) (1 # 4) (3 # 4) = true.
Proof. vm_compute. reflexivity. Qed.

(* ---- square-root brackets ------------------------------------------------------------------------ *)

(** lo^2 <= x <= hi^2 for every x >= 0: the enclosures really bracket the Euclidean lengths *)
Theorem sqrt_bracket k x : 0 <= x -> sqrt_lo k x * sqrt_lo k x <= x /\ x <= sqrt_hi k x * sqrt_hi k x.
Proof.
  intro Hx. unfold sqrt_lo, sqrt_hi. destruct x as [n d]. cbn [Qnum Qden].
  assert (Hn : (0 <= n)%Z) by (unfold Qle in Hx; cbn in Hx; lia).
  set (N := (n * Zpos d * 4 ^ Zpos k)%Z).
  assert (HN : (0 <= N)%Z) by (unfold N; apply Z.mul_nonneg_nonneg; [apply Z.mul_nonneg_nonneg; lia|apply Z.pow_nonneg; lia]).
  pose proof (Z.sqrt_spec N HN) as [S1 S2]. set (r := Z.sqrt N) in *.
  assert (H4 : (4 ^ Zpos k = Zpos (2 ^ k) * Zpos (2 ^ k))%Z).
  { rewrite Pos2Z.inj_pow. change 4%Z with (2 * 2)%Z. rewrite Z.pow_mul_l. reflexivity. }
  unfold Qle, Qmult. cbn [Qnum Qden]. rewrite !Pos2Z.inj_mul.
  set (D := Zpos d) in *. set (K := Zpos (2 ^ k)) in *.
  assert (HD : (0 < D)%Z) by (unfold D; lia). assert (HK : (0 < K)%Z) by (unfold K; lia).
  unfold N in S1, S2. rewrite H4 in S1, S2. fold K in S1, S2.
  split; nia.
Qed.

(* ---- SplitAt on multi-subpath paths --------------------------------------------------------------- *)
Import PathEnc.Enc Split.SplitAt.

(** splitat_multisubpath — REFUTED on the unchanged tree: the pieces do not have the length of the input.
    Witness M0 0L10 0M100 100L110 100 split at 5 and 15 (replayed on the Go code):
    the pieces are M0 0L5 0 / M5 0L10 0L5 0 / M5 0L10 0 — total length 5 + 10 + 5 = 20 by luck, but the second
    subpath is nowhere: every point of every piece has y = 0. *)
Definition all_points (qs : list piece) : list pt := concat (concat qs).

Theorem splitat_multisubpath_refuted_v0 :
  exists sps ts qs, split_at len1 true sps ts = Some qs /\
    exists p, In p (concat sps) /\ forallb (fun q => negb (pt_eqb p q)) (all_points qs) = true.
Proof.
  exists [[(0, 0); (10, 0)]; [(100, 100); (110, 100)]], [5; 15].
  eexists. split; [vm_compute; reflexivity|].
  exists (110, 100). split; [cbn; auto|vm_compute; reflexivity].
Qed.

(** after the fix the same input gives M0 0L5 0 / M5 0L10 0 M100 100L105 100 / M105 100L110 100: every input point
    is on some piece and the piece lengths are 5, 10, 5 *)
Example splitat_multisubpath_fixed :
  exists qs, split_at len1 false [[(0, 0); (10, 0)]; [(100, 100); (110, 100)]] [5; 15] = Some qs /\
    forallb (fun p => existsb (pt_eqb p) (all_points qs)) [(0, 0); (10, 0); (100, 100); (110, 100)] = true /\
    forallb (fun x => Qeq_bool (fst x) (snd x)) (combine (map (piece_len len1) qs) [5; 10; 5]) = true.
Proof. eexists. split; [vm_compute; reflexivity|]. split; vm_compute; reflexivity. Qed.

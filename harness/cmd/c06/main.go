// c06: correspondence harness for C06 (winding / containment queries).
// Polygon mode: builds integer-grid polygonal paths through the public builder, decodes the path actually
// built, runs Windings/Crossings/Contains and RayIntersections+windings on query points (lattice points,
// half-lattice points, vertices, edge midpoints) and prints one case per path for the Coq judge.
package main

import (
	"flag"
	"fmt"
	"math"
	"strings"

	"github.com/tdewolff/canvas"

	"verifharness/internal/cq"
	"verifharness/internal/curve"
	"verifharness/internal/gen"
	"verifharness/internal/out"
	"verifharness/internal/pd"
	"verifharness/internal/rng"
)

type query struct {
	X, Y     int // in half-grid units (coordinate = X*scale/2)
	W        int
	Wb       bool
	C        int
	Cb       bool
	Cont     [4]bool
	Panic    string
	Recs     [][][4]int // per subpath: T0zero, T1class(0,1,2), into, same
	RecPanic bool
}

func safe(f func()) (msg string) {
	defer func() {
		if r := recover(); r != nil {
			msg = fmt.Sprint(r)
		}
	}()
	f()
	return ""
}

func b2i(b bool) int {
	if b {
		return 1
	}
	return 0
}

// decode the path data into contours of integer half-grid points; ok=false if a coordinate is off-grid
func decode(p *canvas.Path, half float64) (cs [][]gen.IPt, closed []bool, ok bool) {
	segs, err := pd.Decode(p.Data())
	if err != nil {
		return nil, nil, false
	}
	ok = true
	for _, sp := range pd.Subpaths(segs) {
		var c []gen.IPt
		cl := false
		for _, s := range sp {
			x, y := s.X/half, s.Y/half
			if x != math.Trunc(x) || y != math.Trunc(y) {
				ok = false
			}
			switch s.Cmd {
			case 'M', 'L':
				c = append(c, gen.IPt{X: int(x), Y: int(y)})
			case 'Z':
				cl = true // Close returns to the start: no new vertex
			default:
				ok = false
			}
		}
		cs = append(cs, c)
		closed = append(closed, cl)
	}
	return
}

func main() {
	seed := flag.Uint64("seed", 1, "")
	n := flag.Int("n", 100, "")
	only := flag.Int("only", -1, "")
	open := flag.Bool("open", false, "also generate open subpaths")
	mode := flag.String("mode", "poly", "poly|curve|fill")
	flag.Parse()
	if *mode == "curve" {
		curveMode(*seed, *n, *only)
		return
	} else if *mode == "fill" {
		fillMode(*seed, *n, *only)
		return
	}
	o := out.New()
	defer o.Close()
	root := rng.New(*seed)
	for i := 0; i < *n; i++ {
		if *only >= 0 && i != *only {
			continue
		}
		r := root.Fork(uint64(i))
		ip := gen.Poly(r)
		p := &canvas.Path{}
		s := ip.Scale
		for _, c := range ip.Contours {
			p.MoveTo(float64(c[0].X)*s, float64(c[0].Y)*s)
			for _, v := range c[1:] {
				p.LineTo(float64(v.X)*s, float64(v.Y)*s)
			}
			if !*open || r.P(3, 4) {
				p.Close()
			}
		}
		half := s / 2
		cs, closed, ok := decode(p, half)
		if !ok || len(cs) == 0 {
			continue
		}
		// query points in half-grid units
		x0, y0, x1, y1 := ip.Bounds()
		var qs []query
		add := func(x, y int) { qs = append(qs, query{X: x, Y: y}) }
		nq := 24
		for k := 0; k < nq; k++ {
			switch r.Intn(6) {
			case 0, 1: // generic half-lattice point (odd coordinates: never level with a vertex)
				add(2*r.Range(x0-1, x1)+1, 2*r.Range(y0-1, y1)+1)
			case 2: // lattice point (often level with vertices)
				add(2*r.Range(x0-1, x1+1), 2*r.Range(y0-1, y1+1))
			case 3: // level with a vertex, to the left or right of it
				c := rng.Pick(r, ip.Contours)
				v := rng.Pick(r, c)
				add(2*r.Range(x0-2, x1+1)+r.Intn(2), 2*v.Y)
			case 4: // a vertex itself
				c := rng.Pick(r, ip.Contours)
				v := rng.Pick(r, c)
				add(2*v.X, 2*v.Y)
			default: // edge midpoint (on the boundary)
				c := rng.Pick(r, ip.Contours)
				k := r.Intn(len(c))
				a, b := c[k], c[(k+1)%len(c)]
				add(a.X+b.X, a.Y+b.Y)
			}
		}
		for qi := range qs {
			q := &qs[qi]
			x, y := float64(q.X)*half, float64(q.Y)*half
			q.Panic = safe(func() {
				q.W, q.Wb = p.Windings(x, y)
				q.C, q.Cb = p.Crossings(x, y)
				for rule := 0; rule < 4; rule++ {
					q.Cont[rule] = p.Contains(x, y, canvas.FillRule(rule))
				}
			})
			if msg := safe(func() {
				for _, sp := range p.Split() {
					zs := sp.RayIntersections(x, y)
					var rec [][4]int
					for _, z := range zs {
						t1 := 2
						if z.T[1] == 0.0 {
							t1 = 0
						} else if z.T[1] == 1.0 {
							t1 = 1
						}
						rec = append(rec, [4]int{b2i(z.T[0] == 0.0), t1, b2i(z.Into()), b2i(z.Same)})
					}
					q.Recs = append(q.Recs, rec)
				}
			}); msg != "" {
				q.RecPanic = true
			}
		}
		// Gallina term
		var csS []string
		for _, c := range cs {
			var vs []string
			for _, v := range c {
				vs = append(vs, cq.Pair(cq.Z(int64(v.X)), cq.Z(int64(v.Y))))
			}
			csS = append(csS, cq.List(vs))
		}
		var clS []string
		for _, c := range closed {
			clS = append(clS, cq.Bool(c))
		}
		var qsS []string
		for _, q := range qs {
			var recs []string
			for _, rec := range q.Recs {
				var rs []string
				for _, z := range rec {
					rs = append(rs, fmt.Sprintf("(%s,%s,%s,%s)", cq.Bool(z[0] == 1), cq.Z(int64(z[1])), cq.Bool(z[2] == 1), cq.Bool(z[3] == 1)))
				}
				recs = append(recs, cq.List(rs))
			}
			cont := []string{cq.Bool(q.Cont[0]), cq.Bool(q.Cont[1]), cq.Bool(q.Cont[2]), cq.Bool(q.Cont[3])}
			qsS = append(qsS, fmt.Sprintf("(mkQ06 %s %s %s %s %s %s %s %s %s)", cq.Z(int64(q.X)), cq.Z(int64(q.Y)),
				cq.Z(int64(q.W)), cq.Bool(q.Wb), cq.Z(int64(q.C)), cq.Bool(q.Cb), cq.List(cont), cq.Bool(q.Panic != ""), cq.List(recs)))
		}
		term := fmt.Sprintf("mkCase06 %s %s %s", cq.List(csS), cq.List(clS), cq.List(qsS))
		desc := map[string]interface{}{"path": p.String(), "scale_half": half, "queries_halfgrid": func() [][2]int {
			var v [][2]int
			for _, q := range qs {
				v = append(v, [2]int{q.X, q.Y})
			}
			return v
		}(), "go": func() []string {
			var v []string
			for _, q := range qs {
				v = append(v, fmt.Sprintf("(%g,%g): W=%d b=%v C=%d b=%v contains=%v panic=%q", float64(q.X)*half, float64(q.Y)*half, q.W, q.Wb, q.C, q.Cb, q.Cont, q.Panic))
			}
			return v
		}()}
		o.Emit(out.Case{I: i, Fam: ip.Family + map[bool]string{true: "", false: "+open"}[allTrue(closed)], Coq: term, Desc: desc, Tags: []string{strings.ToLower(ip.Family)}})
	}
}

func allTrue(bs []bool) bool {
	for _, b := range bs {
		if !b {
			return false
		}
	}
	return true
}


// ---------------------------------------------------------------------------------------------------------
// curved paths: Go's queries judged against the winding number of an independent dense sampling of the path

const cub = 24 // grid 2^-24 for the sampled polyline and the query points

func cunits(f float64) int64 { return int64(math.Round(f * (1 << cub))) }

// y values at which the path generated last has a curve running parallel to the ray while crossing it (extra queries)
var flatInflectionY []float64

func curvedPath(r *rng.R) (*canvas.Path, string) {
	flatInflectionY = nil
	g := func(lo, hi int) float64 { return float64(r.Range(lo*4, hi*4)) / 4 }
	p := &canvas.Path{}
	switch r.Intn(9) {
	case 8: // circle / ellipse of four cubics (joints with exactly horizontal and vertical tangents), both orientations
		rx, ry := g(2, 8), g(2, 8)
		if r.Bool() {
			ry = rx
		}
		cx, cy := g(-3, 3), g(-3, 3)
		k := 0.5522847498307936
		p.MoveTo(cx+rx, cy)
		p.CubeTo(cx+rx, cy+k*ry, cx+k*rx, cy+ry, cx, cy+ry)
		p.CubeTo(cx-k*rx, cy+ry, cx-rx, cy+k*ry, cx-rx, cy)
		p.CubeTo(cx-rx, cy-k*ry, cx-k*rx, cy-ry, cx, cy-ry)
		p.CubeTo(cx+k*rx, cy-ry, cx+rx, cy-k*ry, cx+rx, cy)
		p.Close()
		if r.Bool() {
			p = p.Reverse()
		}
		return p, "cubic-circle"
	case 7: // a cubic with a stationary inflection whose tangent is horizontal (y' = y'' = 0 at t = 1/2: the curve is parallel to the
		// ray there and still crosses it), running left-to-right or right-to-left, closed by lines above or below
		ym, d := g(-3, 3), g(1, 4)
		xa, xb := g(-8, -2), g(2, 8)
		x1, x2 := xa+float64(r.Range(0, 8))/4, xb-float64(r.Range(0, 8))/4
		h := g(2, 5)
		if r.Bool() {
			h = -h - 2*d
		}
		p.MoveTo(xa, ym+d)
		p.CubeTo(x1, ym-d, x2, ym+d, xb, ym-d)
		p.LineTo(xb, ym+d+h)
		p.LineTo(xa, ym+d+h)
		p.Close()
		if r.Bool() {
			p = p.Reverse()
		}
		flatInflectionY = append(flatInflectionY, ym)
		return p, "flat-inflection"
	case 0: // closed chain of quadratics
		n := r.Range(2, 4)
		p.MoveTo(g(-8, 8), g(-8, 8))
		for k := 0; k < n; k++ {
			p.QuadTo(g(-10, 10), g(-10, 10), g(-8, 8), g(-8, 8))
		}
		p.Close()
		return p, "quads"
	case 1: // closed chain of cubics
		n := r.Range(1, 3)
		p.MoveTo(g(-8, 8), g(-8, 8))
		for k := 0; k < n; k++ {
			p.CubeTo(g(-10, 10), g(-10, 10), g(-10, 10), g(-10, 10), g(-8, 8), g(-8, 8))
		}
		p.Close()
		return p, "cubics"
	case 2: // quarter-round corners: curves with horizontal/vertical end tangents joined to lines
		w, h, c := g(4, 10), g(4, 10), g(1, 3)
		p.MoveTo(0, 0)
		p.LineTo(w-c, 0)
		if r.Bool() {
			p.CubeTo(w-c/2, 0, w, c/2, w, c)
		} else {
			p.QuadTo(w, 0, w, c)
		}
		p.LineTo(w, h)
		p.LineTo(0, h)
		p.Close()
		if r.Bool() {
			p = p.Reverse()
		}
		return p.Translate(g(-6, 0), g(-6, 0)), "round-corner"
	case 3: // circles and ellipses incl. rotated ones, as two arcs
		rx, ry := g(1, 8), g(1, 8)
		rot := rng.Pick(r, []float64{0, 0, 90, 30, 45, 70, 120})
		cx, cy := g(-3, 3), g(-3, 3)
		cr, sr := math.Cos(rot*math.Pi/180), math.Sin(rot*math.Pi/180)
		sweep := r.Bool()
		p.MoveTo(cx+rx*cr, cy+rx*sr)
		p.ArcTo(rx, ry, rot, false, sweep, cx-rx*cr, cy-rx*sr)
		p.ArcTo(rx, ry, rot, false, sweep, cx+rx*cr, cy+rx*sr)
		p.Close()
		return p, "ellipse"
	case 4: // a large and a small arc closed by lines
		rx, ry := g(2, 8), g(2, 8)
		p.MoveTo(g(-4, 0), g(-4, 4))
		p.ArcTo(rx, ry, rng.Pick(r, []float64{0, 20, 90, 135}), r.Bool(), r.Bool(), g(1, 5), g(-4, 4))
		p.LineTo(g(-8, 8), g(-9, -5))
		p.Close()
		return p, "arc-segment"
	case 5: // mixed
		p.MoveTo(g(-8, 0), g(-8, 0))
		p.LineTo(g(0, 8), g(-8, 0))
		p.QuadTo(g(4, 10), g(-2, 2), g(0, 8), g(0, 8))
		p.CubeTo(g(-4, 4), g(6, 12), g(-8, 0), g(6, 12), g(-8, 0), g(0, 8))
		p.Close()
		return p, "mixed"
	default: // two curved subpaths, the second possibly inside the first
		c1 := canvas.Circle(g(4, 8))
		c2 := canvas.Ellipse(g(1, 3), g(1, 3)).Translate(g(-2, 2), g(-2, 2))
		if r.Bool() {
			c2 = c2.Reverse()
		}
		return c1.Append(c2), "nested-curves"
	}
}

func curveMode(seed uint64, n, only int) {
	o := out.New()
	defer o.Close()
	root := rng.New(seed ^ 0xC06C)
	for i := 0; i < n; i++ {
		if only >= 0 && i != only {
			continue
		}
		r := root.Fork(uint64(i))
		p, fam := curvedPath(r)
		segs, err := pd.Decode(p.Data())
		if err != nil || len(segs) == 0 {
			continue
		}
		polys, closed := curve.Sample(segs, 192)
		if !allTrue(closed) {
			continue
		}
		var flat []string
		for _, c := range polys {
			var vs []string
			for _, v := range c {
				vs = append(vs, cq.Pair(cq.Z(cunits(v.X)), cq.Z(cunits(v.Y))))
			}
			flat = append(flat, cq.List(vs))
		}
		// query points
		type q struct {
			x, y float64
			why  string
		}
		var qs []q
		b := p.FastBounds()
		for k := 0; k < 10; k++ {
			qs = append(qs, q{b.X0 - 1 + float64(r.Intn(int(4*(b.X1-b.X0+2))))/4 + 1.0/16, b.Y0 - 1 + float64(r.Intn(int(4*(b.Y1-b.Y0+2))))/4 + 1.0/16, "random"})
		}
		for _, s := range segs { // level with segment end points and control points, left of the path and inside
			qs = append(qs, q{b.X0 - 1.5, s.Y, "level-with-endpoint"})
			if s.Cmd == 'Q' || s.Cmd == 'C' {
				qs = append(qs, q{b.X0 - 0.75, s.A[1], "level-with-control-point"})
			}
			if r.P(1, 2) {
				qs = append(qs, q{(b.X0 + b.X1) / 2, s.Y, "level-with-endpoint-inside"})
			}
		}
		for _, y := range flatInflectionY {
			qs = append(qs, q{b.X0 - 1.25, y, "level-with-flat-inflection"}, q{b.X1 + 1.25, y, "level-with-flat-inflection-right"})
		}
		tb := p.Bounds() // rays tangent to the extrema of the curves
		qs = append(qs, q{b.X0 - 2, tb.Y1, "tangent-at-top"}, q{b.X0 - 2, tb.Y0, "tangent-at-bottom"}, q{(b.X0 + b.X1) / 2, tb.Y1, "tangent-at-top-mid"})
		var qsS []string
		var goD []string
		var whyD []string
		for _, qq := range qs {
			var W, C int
			var Wb, Cb bool
			var cont [4]bool
			msg := safe(func() {
				W, Wb = p.Windings(qq.x, qq.y)
				C, Cb = p.Crossings(qq.x, qq.y)
				for rule := 0; rule < 4; rule++ {
					cont[rule] = p.Contains(qq.x, qq.y, canvas.FillRule(rule))
				}
			})
			contS := []string{cq.Bool(cont[0]), cq.Bool(cont[1]), cq.Bool(cont[2]), cq.Bool(cont[3])}
			qsS = append(qsS, fmt.Sprintf("(mkQC06 %s %s %s %s %s %s %s %s)", cq.Z(cunits(qq.x)), cq.Z(cunits(qq.y)), cq.Z(int64(W)), cq.Bool(Wb), cq.Z(int64(C)), cq.Bool(Cb), cq.List(contS), cq.Bool(msg != "")))
			goD = append(goD, fmt.Sprintf("(%v,%v) %s: W=%d b=%v C=%d b=%v contains=%v panic=%q", qq.x, qq.y, qq.why, W, Wb, C, Cb, cont, msg))
			whyD = append(whyD, qq.why)
		}
		g2 := int64(1) << (2 * (cub - 7)) // (2^-7)^2 in grid units
		term := fmt.Sprintf("mkCurve06 %s %s %s", cq.List(flat), cq.Z(g2), cq.List(qsS))
		o.Emit(out.Case{I: i, Fam: fam, Coq: term, Desc: map[string]interface{}{"path": p.String(), "go": goD, "why": whyD}})
	}
}

// ---------------------------------------------------------------------------------------------------------
// CCW and Filling on paths of simple, mutually non-touching polygonal contours

func fillMode(seed uint64, n, only int) {
	o := out.New()
	defer o.Close()
	root := rng.New(seed ^ 0xF111)
	for i := 0; i < n; i++ {
		if only >= 0 && i != only {
			continue
		}
		r := root.Fork(uint64(i))
		if i%3 == 2 {
			curvedFillCase(o, r, i)
			continue
		}
		// nested / side-by-side convex contours with known interior witnesses
		type cont struct {
			pts []gen.IPt
			wit gen.IPt // in quarter units
		}
		var cs []cont
		k := r.Range(1, 4)
		x := -20
		for j := 0; j < k; j++ {
			if j > 0 && r.P(1, 2) && len(cs) > 0 {
				// nest inside the previous one: a smaller rectangle around its centre
				pr := cs[len(cs)-1].pts
				x0, y0, x1, y1 := pr[0].X, pr[0].Y, pr[0].X, pr[0].Y
				for _, v := range pr {
					x0, y0, x1, y1 = min(x0, v.X), min(y0, v.Y), max(x1, v.X), max(y1, v.Y)
				}
				if len(pr) == 4 && x1-x0 >= 6 && y1-y0 >= 6 { // only inside a rectangle: the box of a triangle is not inside it
					c := gen.Rect(x0+2, y0+2, x1-2, y1-2)
					if r.Bool() {
						c = gen.Reverse(c)
					}
					cs = append(cs, cont{c, gen.IPt{X: 4*(x0+2) + 1, Y: 4*(y0+2) + 1}})
					continue
				}
			}
			w, h := r.Range(3, 12), r.Range(3, 12)
			y := r.Range(-6, 6)
			c := gen.Rect(x, y, x+w, y+h)
			if r.P(1, 3) { // a triangle instead
				c = []gen.IPt{{x, y}, {x + w, y}, {x, y + h}}
			}
			if r.Bool() {
				c = gen.Reverse(c)
			}
			cs = append(cs, cont{c, gen.IPt{X: 4*x + 1, Y: 4*y + 1}})
			x += w + r.Range(1, 3)
		}
		p := &canvas.Path{}
		for _, c := range cs {
			p.MoveTo(float64(c.pts[0].X), float64(c.pts[0].Y))
			for _, v := range c.pts[1:] {
				p.LineTo(float64(v.X), float64(v.Y))
			}
			p.Close()
		}
		var ccw []string
		var filling []string
		msg := safe(func() {
			for _, sp := range p.Split() {
				ccw = append(ccw, cq.Bool(sp.CCW()))
			}
			for rule := 0; rule < 4; rule++ {
				var fs []string
				for _, f := range p.Filling(canvas.FillRule(rule)) {
					fs = append(fs, cq.Bool(f))
				}
				filling = append(filling, cq.List(fs))
			}
		})
		if msg != "" {
			o.Emit(out.Case{I: i, Fam: "fill-panic", Coq: "", Desc: map[string]interface{}{"path": p.String(), "panic": msg}})
			continue
		}
		var csS, wS []string
		for _, c := range cs {
			var vs []string
			for _, v := range c.pts {
				vs = append(vs, cq.Pair(cq.Z(int64(4*v.X)), cq.Z(int64(4*v.Y))))
			}
			csS = append(csS, cq.List(vs))
			wS = append(wS, cq.Pair(cq.Z(int64(c.wit.X)), cq.Z(int64(c.wit.Y))))
		}
		term := fmt.Sprintf("mkFill06 %s 1%%Z %s %s %s", cq.List(csS), cq.List(wS), cq.List(ccw), cq.List(filling))
		o.Emit(out.Case{I: i, Fam: fmt.Sprintf("fill-%d", len(cs)), Coq: term, Desc: map[string]interface{}{"path": p.String(), "go_ccw": ccw, "go_filling": filling}})
	}
}

// ---------------------------------------------------------------------------------------------------------
// CCW / Filling on ONE simple curved contour: crescents and lenses whose extreme point (right-most, left-most, top or
// bottom) is a cusp where the boundary doubles back with parallel tangents, drops, and ordinary convex curved shapes.
// The oracle is the signed area of a dense sampling (the judge checks that the sampling is simple and that the witness
// is inside and far from it).

func curvedFillCase(o *out.W, r *rng.R, i int) {
	g := func(lo, hi int) float64 { return float64(r.Range(lo*4, hi*4)) / 4 }
	p := &canvas.Path{}
	var wit canvas.Point
	fam := ""
	switch r.Intn(4) {
	case 0: // crescent above the axis with a cusp at (w,0): both curves arrive with horizontal tangents
		w, h1 := g(6, 12), g(3, 8)
		h2 := g(1, int(h1)-1)
		u, v := g(2, int(w)-1), g(2, int(w)-1)
		if r.Bool() { // quadratics
			p.MoveTo(0, h1)
			p.QuadTo(u, 0, w, 0)
			p.QuadTo(v, 0, 0, h2)
		} else { // cubics with the inner control points on the axis
			p.MoveTo(0, h1)
			p.CubeTo(g(0, 2), h1/2, u, 0, w, 0)
			p.CubeTo(v, 0, g(0, 2), h2/2, 0, h2)
		}
		p.Close()
		wit = canvas.Point{X: 0.25, Y: (h1 + h2) / 2}
		fam = "fill-curved-crescent-cusp"
	case 1: // lens: cusp at (w,0), one curve above and one below the axis
		w, h1, h2 := g(6, 12), g(2, 8), g(2, 8)
		u, v := g(2, int(w)-1), g(2, int(w)-1)
		p.MoveTo(0, h1)
		p.QuadTo(u, 0, w, 0)
		p.QuadTo(v, 0, 0, -h2)
		p.Close()
		wit = canvas.Point{X: 0.25, Y: (h1 - h2) / 2}
		fam = "fill-curved-lens-cusp"
	case 2: // drop: a cubic loop back to its start, the start is a corner
		w, h := g(4, 10), g(2, 6)
		p.MoveTo(0, 0)
		p.CubeTo(w, h, w, -h, 0, 0)
		p.Close()
		wit = canvas.Point{X: w / 2, Y: 0}
		fam = "fill-curved-drop"
	default: // ellipse as two arcs, rotated
		rx, ry := g(2, 8), g(1, 6)
		rot := rng.Pick(r, []float64{0, 30, 60, 90, 120, 150})
		cr, sr := math.Cos(rot*math.Pi/180), math.Sin(rot*math.Pi/180)
		sweep := r.Bool()
		p.MoveTo(rx*cr, rx*sr)
		p.ArcTo(rx, ry, rot, false, sweep, -rx*cr, -rx*sr)
		p.ArcTo(rx, ry, rot, false, sweep, rx*cr, rx*sr)
		p.Close()
		wit = canvas.Point{X: 0, Y: 0}
		fam = "fill-curved-ellipse"
	}
	// put the cusp at the right, left, top or bottom; both orientations; translate
	m := canvas.Identity
	switch r.Intn(4) {
	case 1:
		m = m.ReflectX()
	case 2:
		m = canvas.Matrix{{0, -1, 0}, {1, 0, 0}} // quarter turn, exact
	case 3:
		m = canvas.Matrix{{0, 1, 0}, {-1, 0, 0}}
	}
	m = canvas.Identity.Translate(g(-5, 5), g(-5, 5)).Mul(m)
	p = p.Transform(m)
	wit = m.Dot(wit)
	if r.Bool() {
		p = p.Reverse()
	}
	segs, err := pd.Decode(p.Data())
	if err != nil || len(segs) == 0 {
		return
	}
	polys, _ := curve.Sample(segs, 40)
	wits := []canvas.Point{wit}
	if r.P(1, 2) && len(polys) == 1 {
		// enclose the curved contour in a rectangle that hugs the curve itself (control points and arc boxes may stick out)
		x0, y0, x1, y1 := math.Inf(1), math.Inf(1), math.Inf(-1), math.Inf(-1)
		for _, v := range polys[0] {
			x0, y0, x1, y1 = math.Min(x0, v.X), math.Min(y0, v.Y), math.Max(x1, v.X), math.Max(y1, v.Y)
		}
		mg := rng.Pick(r, []float64{0.25, 0.5, 1})
		x0, y0, x1, y1 = math.Floor(x0*4)/4-mg, math.Floor(y0*4)/4-mg, math.Ceil(x1*4)/4+mg, math.Ceil(y1*4)/4+mg
		rect := []curve.Pt{{X: x0, Y: y0}, {X: x1, Y: y0}, {X: x1, Y: y1}, {X: x0, Y: y1}}
		if r.Bool() {
			rect[1], rect[3] = rect[3], rect[1]
		}
		q := &canvas.Path{}
		q.MoveTo(rect[0].X, rect[0].Y)
		for _, v := range rect[1:] {
			q.LineTo(v.X, v.Y)
		}
		q.Close()
		rw := canvas.Point{X: x0 + 0.125, Y: y0 + 0.125}
		if r.Bool() {
			p = q.Append(p)
			polys = append([][]curve.Pt{rect}, polys...)
			wits = []canvas.Point{rw, wit}
		} else {
			p = p.Append(q)
			polys = append(polys, rect)
			wits = append(wits, rw)
		}
		fam += "-in-rect"
	}
	var ccw, filling []string
	msg := safe(func() {
		for _, sp := range p.Split() {
			ccw = append(ccw, cq.Bool(sp.CCW()))
		}
		for rule := 0; rule < 4; rule++ {
			var fs []string
			for _, f := range p.Filling(canvas.FillRule(rule)) {
				fs = append(fs, cq.Bool(f))
			}
			filling = append(filling, cq.List(fs))
		}
	})
	if msg != "" {
		o.Emit(out.Case{I: i, Fam: "fill-panic", Coq: "", Desc: map[string]interface{}{"path": p.String(), "panic": msg}})
		return
	}
	var csS []string
	for _, c := range polys {
		var vs []string
		for k, v := range c {
			if k > 0 && cunits(v.X) == cunits(c[k-1].X) && cunits(v.Y) == cunits(c[k-1].Y) {
				continue
			}
			vs = append(vs, cq.Pair(cq.Z(cunits(v.X)), cq.Z(cunits(v.Y))))
		}
		csS = append(csS, cq.List(vs))
	}
	g2 := int64(1) << (2 * (cub - 7))
	var witS []string
	for _, w := range wits {
		witS = append(witS, cq.Pair(cq.Z(cunits(w.X)), cq.Z(cunits(w.Y))))
	}
	term := fmt.Sprintf("mkFill06 %s %s %s %s %s", cq.List(csS), cq.Z(g2), cq.List(witS), cq.List(ccw), cq.List(filling))
	o.Emit(out.Case{I: i, Fam: fam, Coq: term, Desc: map[string]interface{}{"path": p.String(), "go_ccw": ccw, "go_filling": filling}})
}

"""C10 — built paths are well-formed; operations on them are total and side-effect free."""
import json, os, re
import vlib

META = dict(
    level="proof",
    technique="Coq proof over a faithful exact-rational model of the path builder working on the raw data (MoveTo/LineTo/QuadTo/"
              "CubeTo/ArcTo relational/Close, Append) + exact differential run (Data() == model data), verified well-formedness "
              "validator and geometry oracle on the Go output, Go-side observation harness (panic/hang/mutation) for every query",
    level_text="Theorems (Coq, closed under the global context): the cmdLen exponent-mask trick computed from the explicit IEEE-754 bit "
               "pattern yields the declared record lengths; encode/decode round-trips from both ends; for EVERY sequence of builder "
               "calls (induction over the history; arcs relational in the stored radii/rotation) the faithful raw-data model never "
               "indexes out of range and its data is the encoding of a well-formed structural path (subpaths start with a move, a "
               "close returns to the subpath start, no zero-length line/quad/cubic/arc, valid arc fields); the original LineTo "
               "direction test is refuted by a witness; Append preserves well-formedness; the raw forward/backward walkers end "
               "exactly at len / 0 with all reads in range on every encoded path. The model is tied to the Go code on every run "
               "by an exact differential run over random call histories, SVG path strings, Append and shape constructors, and the "
               "Go output is judged directly by the validator, the arc checker, the geometry oracle and the Grid oracle. Totality "
               "and side-effect freedom of the queries/derivations are observed on the Go side (recover + watchdog + deep compare "
               "of data and spare capacity), not proved.",
    level_note="Trusted: Coq kernel + vm_compute; the hand-written model (tied by differential runs on a dyadic grid on which the "
               "Epsilon/sqrt/atan tests of the Go code are decided exactly as the model's polynomial tests; no negative zero, NaN, "
               "Inf in the K1 stream); the Go observation harness. builder_geometry is checked per case (oracle), not proved.",
    harness=["c10"],
)

HEADER = ("From Coq Require Import ZArith QArith List Bool.\nFrom CV Require Import Base.Dy PathEnc.Enc PathEnc.Builder Corr.C10.\n"
          "Import ListNotations.\nOpen Scope Q_scope.\n")

FLAGS = {1: "tie:Data()!=model", 2: "tie:model-predicts-panic", 4: "prop:not-well-formed", 8: "prop:arc-fields-invalid",
         16: "prop:grid-cell-misplaced", 32: "info:not-canonical", 64: "prop:builder-panic", 128: "prop:traced-geometry-differs",
         256: "tie:cmdLen-table", 512: "prop:raw-walker-out-of-range", 1024: "prop:pen-position-lost-after-MoveTo+Close",
         2048: "prop:Arc-does-not-trace-the-requested-ellipse"}
PROP_MASK = 4 | 8 | 16 | 64 | 128 | 512 | 1024 | 2048
TIE_MASK = 1 | 2 | 256

# findings of the observation half that belong to another property's check (run and reported, not decided here)
def foreign(method, kind, desc):
    if method == "SplitAt":
        return "C09"          # SplitAt is not in C10's list (Split is); owned by C09/C05
    return None


def documented_new_path(repo):
    """Methods of *Path whose doc comment says they return a new path and does not say in-place: derived from
    the current source on every run."""
    names, docs = [], {}
    for fn in sorted(os.listdir(repo)):
        if not (fn.startswith("path") and fn.endswith(".go")) or fn.endswith("_test.go"):
            continue
        lines = open(os.path.join(repo, fn), encoding="utf-8").read().split("\n")
        for i, l in enumerate(lines):
            m = re.match(r"func \(p \*Path\) ([A-Z]\w*)\(", l)
            if not m:
                continue
            j, doc = i - 1, []
            while j >= 0 and lines[j].startswith("//"):
                doc.append(lines[j][2:].strip())
                j -= 1
            doc = " ".join(reversed(doc))
            docs[m.group(1)] = doc
            low = doc.lower()
            if re.search(r"returns? a new path", low) and not re.search(r"in-place|in place", low):
                names.append(m.group(1))
    return sorted(names), docs


def has_loop_curve(path):
    """the path (Path.String(): absolute M/L/Q/C/A/z) has a Bezier segment whose end point is its start point"""
    import re
    toks = re.findall(r"[MLQCAz]|-?[0-9.]+(?:e[-+]?[0-9]+)?", path)
    i, cur, start = 0, (0.0, 0.0), (0.0, 0.0)
    n = {"M": 2, "L": 2, "Q": 4, "C": 6, "A": 7, "z": 0}
    while i < len(toks):
        c = toks[i]
        if c not in n:
            return False
        try:
            a = [float(x) for x in toks[i + 1:i + 1 + n[c]]]
        except ValueError:
            return False
        i += 1 + n[c]
        if c == "z":
            cur = start
            continue
        end = (a[-2], a[-1])
        if c in "QC" and end == cur:
            return True
        if c == "M":
            start = end
        cur = end
    return False


def run(ctx):
    pr, obligations, discharged = vlib.proof_stage(ctx, ["theories/Corr/C10.vo"])
    if pr["broken"] or not pr["ok"]:
        ctx.violation(dict(kind="proof-obligation-broken", theorem_or_file=pr["broken"], bad_axioms=pr["bad_axioms"], log=pr["log"][-2000:]),
                      "proof obligation no longer checks: %s" % (pr["broken"] or pr["bad_axioms"]), found_input=False)
    newpath, docs = documented_new_path(vlib.REPO)
    ncases = ctx.n(1500, 60000)
    args = ["-seed", str(ctx.seed), "-n", str(ncases), "-newpath", ",".join(newpath)]
    if ctx.replay:
        rp = json.load(open(ctx.replay))
        args = ["-seed", str(rp.get("seed", ctx.seed)), "-n", str(rp.get("index", 0)), "-only", str(rp.get("index", 0)),
                "-newpath", ",".join(newpath)]
    rc, cases, err = vlib.harness_cases("c10", args, timeout=ctx.n(600, 3000))
    if rc != 0:
        ctx.violation(dict(kind="harness-crashed", rc=rc, stderr=err[-3000:], correspondence="harness/cmd/c10 run"),
                      "harness exited with %d (a panic outside recover or a fatal error)" % rc, found_input=False)
    rows = vlib.coq_eval_shards("c10-%d" % ctx.seed, HEADER, [c["coq"] for c in cases], shard=ctx.n(40, 250))
    known = vlib.known_findings("C10")

    flagcount, prop_fail, tie_fail = {}, [], []
    nsegs_hist, distinct, nontrivial = {}, set(), set()
    orig_agree = 0
    for c, row in zip(cases, rows):
        fl, nseg, orig = row[0], row[1], row[2]
        orig_agree += orig
        key = c["desc"].get("path", "") + "|" + c["fam"]
        distinct.add(key)
        if nseg >= 3:
            nontrivial.add(key)
        b = "0" if nseg <= 0 else "1-2" if nseg <= 2 else "3-8" if nseg <= 8 else "9-20" if nseg <= 20 else ">20"
        nsegs_hist[b] = nsegs_hist.get(b, 0) + 1
        for bit, name in FLAGS.items():
            if fl & bit:
                flagcount[name] = flagcount.get(name, 0) + 1
        if fl & PROP_MASK:
            prop_fail.append((c, fl))
        elif fl & TIE_MASK:
            tie_fail.append((c, fl))

    def describe(c, fl=0):
        d = dict(seed=ctx.seed, index=c["i"], family=c["fam"], flags=[n for b, n in FLAGS.items() if fl & b])
        for k in ("calls", "calls2", "svg", "shape", "path", "panic", "q"):
            if k in c["desc"]:
                d[k] = c["desc"][k]
        return d

    def size(c):
        return len(c["desc"].get("calls", [])) + len(c["desc"].get("calls2", [])) + len(c["desc"].get("path", "")) / 1000.0

    # ---- correspondence half -------------------------------------------------------------------
    prop_fail.sort(key=lambda t: size(t[0]))
    seen = set()
    known_flag_reported = set()
    for c, fl in prop_fail:
        # an open known finding with "flagmask" covers a case whose property flags are all inside the mask
        kf = None
        for e in known:
            if e.get("status") == "open" and e.get("flagmask") and (fl & PROP_MASK) & ~e["flagmask"] == 0:
                kf = e
        if kf:
            if kf["key"] not in known_flag_reported:
                known_flag_reported.add(kf["key"])
                ctx.known_finding("%s (e.g. %s)" % (kf["what"], describe(c, fl).get("svg") or describe(c, fl).get("calls")))
            continue
        k = (c["fam"].split("+")[0], fl & PROP_MASK)
        if k in seen or len(seen) >= 4:
            continue
        seen.add(k)
        d = describe(c, fl)
        ctx.violation(dict(kind="property-fails-on-implementation", **d),
                      "%s on %s" % (",".join(x for x in d["flags"] if x.startswith("prop")), d.get("shape") or d.get("svg") or d.get("calls")))
    if not prop_fail and tie_fail:
        tie_fail.sort(key=lambda t: size(t[0]))
        c, fl = tie_fail[0]
        ctx.violation(dict(kind="correspondence-broken", correspondence="Corr.C10.judge (builder model vs Path.Data())",
                           searched="%d cases judged by the well-formedness validator, arc checker, geometry and grid oracles: none violates the property" % len(cases),
                           tie_failures=len(tie_fail), **describe(c, fl)), "model/implementation disagree", found_input=False)

    # ---- one returned path per case through the Coq validator: ties the harness' wfGo to PathEnc.Enc.wf_data -------------
    dcases = [c for c in cases if c["desc"].get("derived_coq")]
    drows = vlib.coq_eval_shards("c10d-%d" % ctx.seed, HEADER, [c["desc"]["derived_coq"] for c in dcases], shard=ctx.n(150, 400)) if dcases else []
    derived_bad = []
    for c, row in zip(dcases, drows):
        if row[0] & (4 | 512):
            derived_bad.append((c, row[0]))
    for c, fl in derived_bad[:2]:
        # the Go-side validator accepted this result (otherwise it would not have been sampled): the Coq validator rejects it
        ctx.violation(dict(kind="property-fails-on-implementation", method=c["desc"]["derived_method"], what="result-not-well-formed (Coq validator wf_data)",
                           flags=[n for b, n in FLAGS.items() if fl & b], **describe(c)),
                      "%s returned a path that is not well-formed on %s" % (c["desc"]["derived_method"], c["desc"].get("path", "")[:100]))

    # ---- observation half ----------------------------------------------------------------------
    obs_calls, obs_findings, foreign_notes = 0, [], {}
    unknown_newpath = []
    for c in cases:
        if c["fam"] == "cmdlen":
            unknown_newpath = c["desc"].get("unknown_newpath_methods") or []
        obs_calls += c["desc"].get("obs_calls", 0)
        for f in c["desc"].get("obs") or []:
            owner = foreign(f["method"], f["kind"], c["desc"])
            if owner:
                k = (owner, f["method"], f["kind"])
                if k not in foreign_notes:
                    foreign_notes[k] = dict(owner=owner, method=f["method"], kind=f["kind"], detail=f["detail"], count=0, example=describe(c))
                foreign_notes[k]["count"] += 1
            else:
                obs_findings.append((c, f))
    if unknown_newpath:
        ctx.violation(dict(kind="correspondence-broken", correspondence="doc-derived list of methods returning a new path vs. harness action table",
                           methods=unknown_newpath), "source documents %s as returning a new path but the harness has no action for it" % unknown_newpath,
                      found_input=False)
    obs_findings.sort(key=lambda t: size(t[0]))
    seen = set()
    obs_hist = {}
    for c, f in obs_findings:
        k = (f["method"], f["kind"])
        obs_hist["%s:%s" % k] = obs_hist.get("%s:%s" % k, 0) + 1
        kf = None
        d = describe(c)
        for e in known:
            if (e.get("status") == "open" and e.get("methods") and f["method"] in e["methods"] and e.get("kind") == f["kind"]
                    and e.get("detail_contains", "") in f["detail"]
                    and (not e.get("detail_any") or any(x in f["detail"] for x in e["detail_any"]))
                    and (not e.get("paths") or d.get("path") in e["paths"])      # "paths": exact receivers only
                    and (not e.get("loop_curve") or has_loop_curve(d.get("path", "")))):   # input class decidable from the receiver
                kf = e
        if kf:
            if kf["key"] not in known_flag_reported:
                known_flag_reported.add(kf["key"])
                ctx.known_finding("%s (e.g. %s on p=%s q=%s)" % (kf["what"], f["method"], d.get("path", "")[:120], d.get("q", "")[:120]))
            continue
        if k in seen:
            continue
        seen.add(k)
        if len(seen) <= 8:
            ctx.violation(dict(kind="property-fails-on-implementation", method=f["method"], what=f["kind"], detail=f["detail"],
                               doc=docs.get(f["method"], ""), **d),
                          "%s: %s (%s) on %s" % (f["method"], f["kind"], f["detail"][:80], d.get("path", "")[:100]))
    for k, v in foreign_notes.items():
        print("NOTE: property=%s (observed by the C10 harness, decided by that property's check) %s %s x%d: %s on %s" % (
            v["owner"], v["method"], v["kind"], v["count"], v["detail"][:80], v["example"].get("path", "")[:100]))

    fams = vlib.histogram([c["fam"] for c in cases])
    cov = dict(
        obligations=obligations, discharged=discharged,
        checker_cmd="make -C coq theories/Props/C10.vo (coqc 8.16.1, full .vo) ; coqc on generated cases files (vm_compute)",
        trusted_base=vlib.trusted_base(pr, [
            "correspondence harness harness/cmd/c10 (Go): generators, exact (m,e) float exchange, recover/watchdog wrappers, deep comparison of Data()[:cap]",
            "model written by hand: PathEnc/{Enc,Builder,Scanner,Trace}.v (tied by the differential run below, not proved against Go source)",
            "on the generator grid (multiples of 1/16, |x| <= 40, no negative zero) the Go tests Equal/angleEqual/Hypot/Atan2/Signbit are decided exactly as the model's polynomial tests",
            "python: checks/c10.py doc-comment scan that derives the list of methods documented as returning a new path from the current source"]),
        derived_results_validated_in_coq=len(dcases), derived_results_by_method=vlib.histogram([c['desc']['derived_method'] for c in dcases]),
        evaluations=len(cases), distinct_nontrivial=len(nontrivial), distinct=len(distinct),
        rule="one evaluation = one generated case (call history / SVG string / Append pair / shape constructor) built by the Go code and judged in Coq (model data == Data(), validator, arc checker, geometry oracle); distinct by (resulting path string, family); non-trivial: the resulting path decodes to >= 3 segments",
        families=fams, flag_counts=flagcount, segments_histogram=nsegs_hist,
        traces_validated_against_impl=len(cases),
        cases_matching_only_the_original_LineTo_model=orig_agree,
        observation=dict(method_calls=obs_calls, findings=obs_hist, documented_new_path_methods=newpath,
                         foreign_findings=[v for v in foreign_notes.values()],
                         rule="each call = one public method applied under recover with a 30 s watchdog; receiver and argument Data()[:cap] compared bit-for-bit before/after"),
        theorems=pr["theorems"], assumptions_per_theorem=pr["assumptions"],
        samples=[dict(family=c["fam"], calls=c["desc"].get("calls", c["desc"].get("shape", c["desc"].get("svg"))), path=c["desc"].get("path")) for c in cases[1:4]],
    )
    return ctx.finish("proof", cov, [
        "coordinates on the dyadic grid k/16 so that every Epsilon/sqrt/atan comparison in the Go builder is decided exactly as in the exact model",
        "ArcTo is modelled relationally: stored radii and rotation are taken from the Go result and checked for validity (not recomputed)",
        "Join, Arc (angle form), and the trigonometric shape constructors are covered by the validator on the Go output only (K2), not by the model",
        "totality and non-mutation of queries/derivations are observed (Go side), not proved"])

(** C14 — the arithmetic between canvas millimetres and the scan converter:
    fixedPoint26_6 (path.go), the y flip of ToScanxScanner, the image size of rasterizer.Draw. *)
From Coq Require Import ZArith QArith Qround Lia Lqa.
Open Scope Q_scope.

(** Go's float64 -> int32 conversion truncates toward zero *)
Definition qtrunc (x : Q) : Z := Z.quot (Qnum x) (Zpos (Qden x)).

(** fixed.Int26_6(x*64 + 0.5) *)
Definition fixed26_6 (x : Q) : Z := qtrunc (x * 64 + (1 # 2)).

(** int(W*dpmm + 0.5) *)
Definition image_size (w dpmm : Q) : Z := qtrunc (w * dpmm + (1 # 2)).

(** scanner coordinate of the canvas point (x, y) for an image of height hpx (in pixels) *)
Definition scan_x (x dpmm : Q) : Z := fixed26_6 (x * dpmm).
Definition scan_y (y dpmm : Q) (hpx : Z) : Z := fixed26_6 (inject_Z hpx - y * dpmm).

Lemma qtrunc_spec_nonneg x : 0 <= x -> inject_Z (qtrunc x) <= x /\ x < inject_Z (qtrunc x) + 1.
Proof.
  destruct x as [n d]. unfold qtrunc, Qle, Qlt, inject_Z; simpl. intros Hn.
  assert (Hn' : (0 <= n)%Z) by lia.
  rewrite Z.quot_div_nonneg by lia.
  pose proof (Z.div_mod n (Zpos d) ltac:(lia)) as E.
  pose proof (Z.mod_pos_bound n (Zpos d) ltac:(lia)) as B.
  split; nia.
Qed.

Lemma qtrunc_spec_neg x : x <= 0 -> inject_Z (qtrunc x) - 1 < x /\ x <= inject_Z (qtrunc x).
Proof.
  destruct x as [n d]. unfold qtrunc, Qle, Qlt, inject_Z, Qminus, Qplus, Qopp; simpl. intros Hn.
  assert (Hn' : (n <= 0)%Z) by lia.
  assert (E : Z.quot n (Zpos d) = (- (Z.quot (- n) (Zpos d)))%Z) by (rewrite Z.quot_opp_l; lia).
  rewrite E. rewrite Z.quot_div_nonneg by lia.
  pose proof (Z.div_mod (- n) (Zpos d) ltac:(lia)) as E2.
  pose proof (Z.mod_pos_bound (- n) (Zpos d) ltac:(lia)) as B.
  split; nia.
Qed.

(** Theorem (fixed-point error): the scanner coordinate differs from the real one by less than 1.5/64 of a
    pixel (below 1/64 on the non-negative side, where all visible coordinates lie). *)
Theorem fixed_error x :
  - (3 # 128) < inject_Z (fixed26_6 x) * (1 # 64) - x /\ inject_Z (fixed26_6 x) * (1 # 64) - x < (3 # 128).
Proof.
  unfold fixed26_6. remember (x * 64 + (1 # 2)) as v eqn:Hv.
  assert (Hv' : v == x * 64 + (1 # 2)) by (subst v; reflexivity). clear Hv.
  set (t := inject_Z (qtrunc v)).
  destruct (Qlt_le_dec v 0) as [Hneg|Hpos].
  - destruct (qtrunc_spec_neg v ltac:(lra)) as [H1 H2]. fold t in H1, H2. split; lra.
  - destruct (qtrunc_spec_nonneg v Hpos) as [H1 H2]. fold t in H1, H2. split; lra.
Qed.

Theorem fixed_error_nonneg x : 0 <= x ->
  - (1 # 128) < inject_Z (fixed26_6 x) * (1 # 64) - x /\ inject_Z (fixed26_6 x) * (1 # 64) - x <= (1 # 128).
Proof.
  intros Hx. unfold fixed26_6. remember (x * 64 + (1 # 2)) as v eqn:Hv.
  assert (Hv' : v == x * 64 + (1 # 2)) by (subst v; reflexivity). clear Hv.
  set (t := inject_Z (qtrunc v)).
  assert (Hpos : 0 <= v) by lra.
  destruct (qtrunc_spec_nonneg v Hpos) as [H1 H2]. fold t in H1, H2. split; lra.
Qed.

(** Theorem (error budget): fixed-point error (both coordinates: < 2 * 1.5/64 in the 1-norm), flattening at
    PixelTolerance = 0.1 px and half a pixel of sampling stay below one pixel: the property's one-pixel margin
    is sufficient. *)
Theorem error_budget : 2 * (3 # 128) + (1 # 10) + (1 # 2) < 1.
Proof. reflexivity. Qed.

(** Theorem (vertical flip): canvas y maps to image row coordinate hpx - y*dpmm: the top of the canvas
    (y = hpx/dpmm) is row 0, y = 0 is the bottom edge, and larger y means a smaller row. *)
Theorem flip_monotone y1 y2 dpmm (hpx : Z) : 0 < dpmm -> y1 < y2 ->
  inject_Z hpx - y2 * dpmm < inject_Z hpx - y1 * dpmm.
Proof. intros Hd Hy. nra. Qed.

Theorem flip_ends dpmm (hpx : Z) : 0 < dpmm ->
  inject_Z hpx - 0 * dpmm == inject_Z hpx /\ inject_Z hpx - (inject_Z hpx / dpmm) * dpmm == 0.
Proof. intros Hd. split; [ring|field; lra]. Qed.

(** Theorem (image size): int(W*dpmm + 0.5) is the nearest integer to W*dpmm (W, dpmm >= 0) *)
Theorem image_size_nearest w dpmm : 0 <= w * dpmm ->
  - (1 # 2) < inject_Z (image_size w dpmm) - w * dpmm /\ inject_Z (image_size w dpmm) - w * dpmm <= (1 # 2).
Proof.
  intros H. unfold image_size.
  destruct (qtrunc_spec_nonneg (w * dpmm + (1 # 2)) ltac:(lra)) as [H1 H2]. lra.
Qed.

Example fixed_examples : fixed26_6 (3 # 2) = 96%Z /\ fixed26_6 (- (1 # 4)) = (-15)%Z /\ image_size (297 # 10) (73 # 10) = 217%Z.
Proof. vm_compute. auto. Qed.

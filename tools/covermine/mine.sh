#!/bin/bash
# usage: tools/covermine/mine.sh <pairs.jsonl> <out.json> [-settle]     (one-off; needs a scratch worktree, removed afterwards)
# pairs.jsonl comes from the c01 harness: build/bin-*/c01 -mode pairs -seed S -n N  (VERIF_OUT=<file>)
set -e
export GOFLAGS=-mod=mod GOPROXY=off
WT=/tmp/mutwt/covermine
git -C /repo worktree remove --force $WT 2>/dev/null || true
git -C /repo worktree add -q --detach $WT HEAD
trap 'git -C /repo worktree remove --force $WT; rm -rf /tmp/covermine-build' EXIT
if [ -n "$PATCH" ]; then git -C $WT apply "$PATCH"; fi   # PATCH=<diff>: mine on a deliberately broken build (see README in main.go)
k=0; exp=""
for f in path_intersection.go; do
  go tool cover -mode=count -var=GoCover_$k -o $WT/$f.tmp $WT/$f && mv $WT/$f.tmp $WT/$f
  exp="$exp GoCover_$k.Count[:],"; k=$((k+1))
done
printf 'package canvas\n\nfunc CoverCounts() [][]uint32 { return [][]uint32{%s} }\n' "$exp" > $WT/zz_cover_export.go
mkdir -p /tmp/covermine-build && cp /verif/tools/covermine/main.go /tmp/covermine-build/ && cd /tmp/covermine-build
printf 'module covermine\n\ngo 1.24.1\n\nrequire github.com/tdewolff/canvas v0.0.0\n\nreplace github.com/tdewolff/canvas => %s\n' $WT > go.mod
cp /repo/go.sum .
go build -o covermine . 
./covermine -in "$1" -out "$2" $3

"""C17 — line breaking returns a feasible, optimal Knuth–Plass solution."""
import json, os
import vlib

META = dict(
    level="proof",
    technique="Coq proof over an exact (rational) specification of Knuth–Plass with a proved-optimal dynamic programme + faithful functional "
              "model of text.Linebreak/mainLoop (generic over the number structure) tied bit-exactly to the Go code on binary64 primitive "
              "floats; the Go result is judged against the exact specification on every run (vm_compute)",
    level_text="Theorems (Coq, closed under the global context; exact rational instance, any tuning variables): the textbook dynamic programme kp_opt "
               "returns a complete feasible breaking of minimal total demerits whenever one exists and None otherwise (all paragraphs, all widths, any "
               "admissibility predicate on ratios); every breaking the faithful model of Linebreak returns consists of strictly increasing legal "
               "breakpoints that skip no forced break and ends at the last item when that is a forced break, for every number structure with a "
               "reflexive equality test (any looseness, restarts, overflow); each goto-START restart strictly raises the tolerance and none happens at "
               "tolerance +Inf; whenever the model's breaking is feasible kp_opt finds one at least as good (partial: the converse under Monotone is "
               "not proved). Reported widths/ratios, the bound on the number of restarts, feasibility/optimality of the returned breaking, minimal "
               "relaxation and overflow are NOT theorems: they are judged on every generated case against the exact specification. Optimality of the faithful model itself is REFUTED (witness of DESIGN par. 4, replayed on the Go code on every run: known "
               "finding, inherent to Knuth–Plass deactivation) and holds only under the monotonicity hypothesis (partial). The model is tied to the Go "
               "code by a bit-exact differential run (positions, lines, fitness classes, ratios, widths, demerits, ok flag, panics) and the Go result is "
               "judged directly against the exact specification (legality, forced breaks, widths/ratios, feasibility, kp_opt's optimum, minimal "
               "relaxation, overflow).",
    level_note="Trusted: Coq kernel + vm_compute; the binary64 instance of the model is the same Gallina text as the rational one but no order/arithmetic "
               "law is proved for floats (theorems that need arithmetic are about the rational instance); math.Pow(x,2)/(x,3) are modelled as x*x and "
               "x*(x*x) (Go's pure-Go pow rounds exactly so on the value range used; confirmed bit-exactly by the tie on every generated case); the model is "
               "hand-written and tied by differential runs, not by a proof about Go source.",
    harness=["c17"],
)

HEADER = "From Coq Require Import ZArith List Bool.\nFrom CV Require Import Corr.C17.\nImport ListNotations.\nOpen Scope Z_scope.\n"

FLAGS = {1: "tie:panic-or-fuel", 2: "tie:ok-flag", 4: "tie:positions", 8: "tie:ratios-widths", 16: "tie:line-fitness-demerits",
         32: "prop:panic-on-terminated-paragraph", 64: "prop:illegal-or-non-increasing-breakpoint", 128: "prop:forced-break-skipped-or-not-ending-at-final-break",
         256: "prop:reported-width-or-ratio-not-the-line's", 512: "prop:feasible-breaking-exists-but-returned-one-exceeds-tolerance",
         1024: "prop:demerits-above-optimum", 2048: "prop:tolerance-relaxed-more-than-needed", 4096: "prop:overflow-flag-wrong",
         8192: "prop:overflow-run-reports-width-not-the-line's"}
TIE_MASK = 31
MONO_MASK = 512 | 1024 | 2048 | 4096          # what the monotonicity finding can explain (only if monotone = 0)
OVFW_MASK = 8192                               # what the overflow-width finding explains (only if ok = false)
PROP_MASK = 32 | 64 | 128 | 256 | MONO_MASK | OVFW_MASK


DEFAULT_FINDINGS = {
    "deactivation-assumes-monotone-line-length": dict(
        property="C17", key="deactivation-assumes-monotone-line-length", status="open", cond="monotoneb=false", flagmask=MONO_MASK),
    "overflow-fallback-width": dict(
        property="C17", key="overflow-fallback-width", status="open", cond="ok=false", flagmask=OVFW_MASK),
}


def run(ctx):
    pr, obligations, discharged = vlib.proof_stage(ctx, ["theories/Corr/C17.vo"])
    if pr["broken"] or not pr["ok"]:
        ctx.violation(dict(kind="proof-obligation-broken", theorem_or_file=pr["broken"], bad_axioms=pr["bad_axioms"], log=pr["log"][-2000:]),
                      "proof obligation no longer checks: %s" % (pr["broken"] or pr["bad_axioms"]), found_input=False)
    ncases = ctx.n(1500, 30000)
    args = ["-seed", str(ctx.seed), "-n", str(ncases)]
    if ctx.replay:
        rp = json.load(open(ctx.replay))
        args = ["-seed", str(rp.get("seed", ctx.seed)), "-n", str(rp.get("index", 0) + 1), "-only", str(rp.get("index", 0))]
    rc, cases, err = vlib.harness_cases("c17", args)
    if rc != 0 or not cases:
        ctx.violation(dict(kind="harness-failed", rc=rc, stderr=err[-2000:], correspondence="harness/cmd/c17"), "harness failed", found_input=False)
        return ctx.finish("proof", dict(evaluations=0, distinct_nontrivial=0, rule="harness failed", samples=[], obligations=obligations,
                                        discharged=discharged, checker_cmd="coqc", trusted_base=[]), [])
    # heavy cases first inside each shard would not help; shard by size so that shards are balanced
    order = sorted(range(len(cases)), key=lambda k: -cases[k]["desc"]["n_items"])
    nsh = max(1, min(len(cases) // 8, 4 * vlib.NCPU))
    buckets = [[] for _ in range(nsh)]
    for j, k in enumerate(order):
        buckets[j % nsh].append(k)
    flat = [k for b in buckets for k in b]
    per = max(len(b) for b in buckets)
    # coq_eval_shards cuts consecutive chunks: pad nothing, just feed bucket after bucket with equal chunk length
    rows_by_case = {}
    terms, idx = [], []
    for b in buckets:
        for k in b:
            terms.append(cases[k]["coq"])
            idx.append(k)
    rows = vlib.coq_eval_shards("c17-%d-%s" % (ctx.seed, ctx.tier), HEADER, terms, shard=per)
    for k, row in zip(idx, rows):
        rows_by_case[k] = row

    # Known findings: entries of known_findings.json (added by the lead from design/C17.md) override these proposals;
    # an entry whose status is not "open" (e.g. "fixed") switches the masking off, so the defect would be a violation again.
    known = {}   # only what known_findings.json lists is a known finding
    for f in vlib.known_findings("C17"):
        known[f["key"]] = f
    mono_known = known.get("deactivation-assumes-monotone-line-length", {}).get("status") == "open"
    ovfw_known = known.get("overflow-fallback-width", {}).get("status") == "open"

    flagcount, stats = {}, dict(in_domain=0, feasible_at_tolerance=0, restarted=0, overflow=0, panics=0, exact_model_agrees=0,
                                nonmonotone_flagged=0, looseness_nonzero=0, lines=0)
    distinct, nontrivial = set(), set()
    prop_fail, tie_fail, mono_hits, ovfw_hits = [], [], [], []
    for k, c in enumerate(cases):
        row = rows_by_case[k]
        fl, dom, mono, nlines, feasT, qsame, rs, flag0 = row[:8]
        d = c["desc"]
        key = (d["items"], d["width"], d["looseness"], tuple(d["params"]))
        distinct.add(key)
        if dom and nlines >= 2:
            nontrivial.add(key)
        stats["in_domain"] += dom
        stats["feasible_at_tolerance"] += feasT
        stats["restarted"] += 1 if rs > 0 else 0
        stats["overflow"] += 1 if (not d["go_ok"] and not d["go_panic"]) else 0
        stats["panics"] += 1 if d["go_panic"] else 0
        stats["exact_model_agrees"] += qsame
        stats["looseness_nonzero"] += 1 if d["looseness"] != 0 else 0
        stats["lines"] += nlines
        for b, name in FLAGS.items():
            if fl & b:
                flagcount[name] = flagcount.get(name, 0) + 1
        if fl & TIE_MASK:
            tie_fail.append((c, fl))
        pf = fl & PROP_MASK
        if pf & MONO_MASK and mono == 0 and mono_known:
            mono_hits.append((c, pf & MONO_MASK))
            stats["nonmonotone_flagged"] += 1
            pf &= ~MONO_MASK
        if pf & OVFW_MASK and not d["go_ok"] and ovfw_known:
            ovfw_hits.append((c, pf & OVFW_MASK))
            pf &= ~OVFW_MASK
        if pf:
            prop_fail.append((c, pf))

    def describe(c, fl):
        d = c["desc"]
        return dict(seed=ctx.seed, index=c["i"], family=c["fam"], items=d["items"], width=d["width"], looseness=d["looseness"],
                    params=d["params"], go_breaks=d["go_breaks"], go_ok=d["go_ok"], go_panic=d["go_panic"],
                    flags=[n for b, n in FLAGS.items() if fl & b])

    # the DESIGN par. 4 witness is case 0 of every run: it must still fail exactly as the _refuted theorem says
    if not ctx.replay:
        w = [t for t in mono_hits if t[0]["fam"] == "witness"]
        if w:
            c, fl = w[0]
            ctx.known_finding("deactivation at ratio < -1 assumes line length is monotone in the break position: a feasible (even optimal) breaking is lost "
                              "[trigger: paragraph not Monotone (Corr.C17.monotoneb = false)] witness %s at width %g returns %s although the one-line breaking has "
                              "ratio 1/1005; %d further generated non-monotone paragraphs fail the same way"
                              % (c["desc"]["items"], c["desc"]["width"], c["desc"]["go_breaks"], len(mono_hits) - 1))
        else:
            # the known defect no longer shows on its witness: report what the witness does now (not a violation: a fix would land here)
            print("note: the C17 monotonicity witness no longer fails (fixed?)")
            if mono_hits:
                c, fl = mono_hits[0]
                ctx.known_finding("deactivation at ratio < -1 loses a feasible breaking on a non-monotone paragraph: %s width %g" % (c["desc"]["items"], c["desc"]["width"]))
    elif mono_hits:
        c, fl = mono_hits[0]
        ctx.known_finding("deactivation at ratio < -1 loses a feasible breaking on a non-monotone paragraph: %s width %g" % (c["desc"]["items"], c["desc"]["width"]))
    if ovfw_hits:
        ovfw_hits.sort(key=lambda t: t[0]["desc"]["n_items"])
        c, fl = ovfw_hits[0]
        ctx.known_finding("overflow fallback records Width/W from lb.W (includes the glue broken at, omits the penalty width, does not discard following glue): "
                          "reported width is not the line's [trigger: ok = false] e.g. %s at width %g returns %s (%d cases)"
                          % (c["desc"]["items"], c["desc"]["width"], c["desc"]["go_breaks"], len(ovfw_hits)))
    prop_fail.sort(key=lambda t: t[0]["desc"]["n_items"])
    for c, fl in prop_fail[:3]:
        ctx.violation(dict(kind="property-fails-on-implementation", **describe(c, fl)),
                      "%s on %s width %g" % (",".join(describe(c, fl)["flags"]), c["desc"]["items"], c["desc"]["width"]))
    if not prop_fail and tie_fail:
        tie_fail.sort(key=lambda t: t[0]["desc"]["n_items"])
        c, fl = tie_fail[0]
        ctx.violation(dict(kind="correspondence-broken", correspondence="Corr.C17.judge (faithful model KP.linebreak on binary64 vs text.Linebreak)",
                           searched="%d paragraphs judged against the exact specification: none violates the property outside the known findings" % len(cases),
                           **describe(c, fl)), "model/implementation disagree (%d cases)" % len(tie_fail), found_input=False)
    fams = vlib.histogram([c["fam"] for c in cases])
    sizes = vlib.histogram([min(40, (c["desc"]["n_items"] // 10) * 10) for c in cases])
    cov = dict(
        obligations=obligations, discharged=discharged,
        checker_cmd="make -C coq theories/Props/C17.vo (coqc 8.16.1, full .vo) ; coqc on generated cases files (vm_compute)",
        trusted_base=vlib.trusted_base(pr, [
            "correspondence harness harness/cmd/c17 (Go), exact (mantissa, exponent) exchange of every float64",
            "Coq primitive floats (kernel binary64 operations) executing the faithful model for the tie; no theorem depends on them",
            "model written by hand: Text/KP.v (tied by the bit-exact differential run below, not proved against Go source); math.Pow(x,2|3) modelled as products"]),
        evaluations=len(cases), distinct=len(distinct), distinct_nontrivial=len(nontrivial),
        rule="one evaluation = one (items, width, looseness, tuning variables) run through text.Linebreak, through the faithful model on binary64 (K1, all returned "
             "fields compared bit for bit) and through the exact rational oracle (K2: legality, forced breaks, reported widths/ratios, kp_opt feasibility and optimum, "
             "minimal relaxation, overflow); distinct by the full input; non-trivial: terminated paragraph broken into at least two lines",
        programs=len(cases), disagreements_checked=len(prop_fail) + len(tie_fail) + len(mono_hits) + len(ovfw_hits),
        traces_validated_against_impl=len(cases), tie_mismatches=len(tie_fail),
        stats=stats, families=fams, size_histogram=sizes, flag_counts=flagcount,
        known_finding_hits=dict(nonmonotone=len(mono_hits), overflow_width=len(ovfw_hits)),
        masked_region="K2 flags 512/1024/2048/4096 are attributed to the monotonicity finding only when Corr.C17.monotoneb is false for that paragraph and width; "
                      "flag 8192 (reported widths in overflow runs) only when ok = false; every other property flag is a violation",
        theorems=pr["theorems"], assumptions_per_theorem=pr["assumptions"],
        samples=[dict(items=c["desc"]["items"], width=c["desc"]["width"], go=c["desc"]["go_breaks"], ok=c["desc"]["go_ok"]) for c in cases[:3]],
    )
    return ctx.finish("proof", cov, [
        "item values and widths are finite, of moderate size (small dyadic numbers): no NaN/Inf/-0 inputs, no overflow/underflow in binary64",
        "the property is judged on paragraphs that end in a forced break, on a positive width (other inputs: tie only)",
        "line sums follow the paper's prefix-sum definition (glue after a break is discarded up to the next box even past a later breakpoint)"])

// c01: correspondence harness for C01 (Boolean path operations) and C02 (Settle).
//
//	-mode col     K1: synthetic status columns through the real computeSweepFields/mergeOverlapping
//	-mode bo      K2: P op Q for op in AND, OR, NOT, XOR, DIV on generated polygon pairs
//	-mode settle  K2: Settle(rule) for the four fill rules
package main

import (
	"encoding/json"
	"flag"
	"fmt"
	"math"
	"math/big"
	"os"
	"strings"
	"time"

	"github.com/tdewolff/canvas"

	"verifharness/internal/cq"
	"verifharness/internal/gen"
	"verifharness/internal/out"
	"verifharness/internal/pd"
	"verifharness/internal/rng"
)

const unitBits = 30 // sample grid: 2^-30

func units(f float64) int64 { return int64(math.Round(f * (1 << unitBits))) }

type ipt struct{ X, Y int64 }

func contourTerm(c []ipt) string {
	vs := make([]string, len(c))
	for i, v := range c {
		vs[i] = cq.Pair(cq.Z(v.X), cq.Z(v.Y))
	}
	return cq.List(vs)
}

func pathTerm(cs [][]ipt) string {
	xs := make([]string, len(cs))
	for i, c := range cs {
		xs[i] = contourTerm(c)
	}
	return cq.List(xs)
}

func build(ip gen.IPoly, dx, dy int) *canvas.Path {
	p := &canvas.Path{}
	s := ip.Scale
	for _, c := range ip.Contours {
		p.MoveTo(float64(c[0].X+dx)*s, float64(c[0].Y+dy)*s)
		for _, v := range c[1:] {
			p.LineTo(float64(v.X+dx)*s, float64(v.Y+dy)*s)
		}
		p.Close()
	}
	return p
}

// polygon contours of a flat path in sample-grid units (rounded) and exact big-integer coordinates
func decodeFlat(p *canvas.Path) (cs [][]ipt, fl [][][2]float64, ok bool) {
	segs, err := pd.Decode(p.Data())
	if err != nil {
		return nil, nil, false
	}
	for _, sp := range pd.Subpaths(segs) {
		var c []ipt
		var f [][2]float64
		for _, s := range sp {
			switch s.Cmd {
			case 'M', 'L':
				c = append(c, ipt{units(s.X), units(s.Y)})
				f = append(f, [2]float64{s.X, s.Y})
			case 'Z':
			default:
				return nil, nil, false
			}
		}
		if len(c) > 0 {
			cs = append(cs, c)
			fl = append(fl, f)
		}
	}
	return cs, fl, true
}

func exactTerm(fl [][][2]float64, more ...[][][2]float64) (string, string, int, []string) {
	// common scale 2^-K making every coordinate an integer (capped)
	K := 0
	all := append([][][2]float64{}, fl...)
	for _, m := range more {
		all = append(all, m...)
	}
	for _, c := range all {
		for _, v := range c {
			for _, f := range v {
				_, e, _ := cq.MantExp(f)
				if -e > K {
					K = -e
				}
			}
		}
	}
	if K > 120 {
		K = 120
	}
	conv := func(f float64) string {
		b := new(big.Float).SetPrec(400).SetFloat64(f)
		b.SetMantExp(b, K)
		i, _ := b.Int(nil)
		if i.Sign() < 0 {
			return "(" + i.String() + ")%Z"
		}
		return i.String() + "%Z"
	}
	term := func(fl [][][2]float64) string {
		xs := make([]string, len(fl))
		for i, c := range fl {
			vs := make([]string, len(c))
			for j, v := range c {
				vs[j] = "(" + conv(v[0]) + ", " + conv(v[1]) + ")"
			}
			xs[i] = cq.List(vs)
		}
		return cq.List(xs)
	}
	var extra []string
	for _, m := range more {
		extra = append(extra, term(m))
	}
	// tolerance for the crossing test: (4e-8 * 2^K)^2
	t := new(big.Float).SetPrec(400).SetFloat64(4e-8)
	t.SetMantExp(t, K)
	t.Mul(t, t)
	ti, _ := t.Int(nil)
	return term(fl), ti.String() + "%Z", K, extra
}

type result struct {
	p     *canvas.Path
	panic string
	hang  bool
}

func runOp(f func() *canvas.Path) result {
	ch := make(chan result, 1)
	go func() {
		defer func() {
			if r := recover(); r != nil {
				ch <- result{panic: fmt.Sprint(r)}
			}
		}()
		ch <- result{p: f()}
	}()
	select {
	case r := <-ch:
		return r
	case <-time.After(20 * time.Second):
		return result{hang: true}
	}
}

var opNames = []string{"Settle", "And", "Or", "Not", "Xor", "DivideBy"}

func sideSamples(r *rng.R, cs [][]ipt, n int, delta float64) []ipt {
	var out []ipt
	var es [][2]ipt
	for _, c := range cs {
		for i := range c {
			es = append(es, [2]ipt{c[i], c[(i+1)%len(c)]})
		}
	}
	if len(es) == 0 {
		return nil
	}
	for k := 0; k < n; k++ {
		e := es[r.Intn(len(es))]
		dx, dy := float64(e[1].X-e[0].X), float64(e[1].Y-e[0].Y)
		m := math.Max(math.Abs(dx), math.Abs(dy))
		if m == 0 {
			continue
		}
		t := float64(r.Range(1, 7)) / 8
		px, py := float64(e[0].X)+dx*t, float64(e[0].Y)+dy*t
		nx, ny := -dy/m*delta, dx/m*delta
		out = append(out, ipt{int64(px + nx), int64(py + ny)}, ipt{int64(px - nx), int64(py - ny)})
	}
	return out
}

func main() {
	seed := flag.Uint64("seed", 1, "")
	n := flag.Int("n", 100, "")
	only := flag.Int("only", -1, "")
	mode := flag.String("mode", "bo", "col|seq|bo|settle|pairs|pairs-settle|corpus|corpus-settle")
	corpusFile := flag.String("corpus", "", "JSON list of {P, Q, box, scale, fam} for the corpus modes")
	flag.Parse()
	var corpus []corpusEntry
	if *corpusFile != "" {
		b, err := os.ReadFile(*corpusFile)
		if err != nil {
			panic(err)
		}
		if err := json.Unmarshal(b, &corpus); err != nil {
			panic(err)
		}
		if *n > len(corpus) {
			*n = len(corpus)
		}
	}
	o := out.New()
	defer o.Close()
	root := rng.New(*seed ^ uint64(len(*mode))*7919)
	for i := 0; i < *n; i++ {
		if *only >= 0 && i != *only {
			continue
		}
		r := root.Fork(uint64(i))
		switch *mode {
		case "col":
			colCase(o, r, i)
		case "seq":
			seqCase(o, r, i)
		case "bo":
			boCase(o, r, i, false)
		case "settle":
			boCase(o, r, i, true)
		case "pairs", "pairs-settle":
			// the generated operands only (for the coverage miner, tools/covermine)
			if pr, ok := genPair(r, *mode == "pairs-settle"); ok {
				o.Emit(out.Case{I: i, Fam: pr.fam, Coq: "", Desc: map[string]interface{}{"P": pr.P.String(), "Q": pr.Q.String(), "box": []int{pr.x0, pr.y0, pr.x1, pr.y1}, "scale": pr.scale}})
			}
		case "corpus", "corpus-settle":
			if i < len(corpus) {
				e := corpus[i]
				P, err1 := canvas.ParseSVGPath(e.P)
				Q, err2 := canvas.ParseSVGPath(e.Q)
				if err1 == nil && err2 == nil && len(e.Box) == 4 {
					judgePair(o, r, i, *mode == "corpus-settle", pair{P, Q, "corpus:" + e.Fam, e.Box[0], e.Box[1], e.Box[2], e.Box[3], e.Scale})
				}
			}
		}
	}
}

func colCase(o *out.W, r *rng.R, i int) {
	n := r.Range(1, 7)
	if r.P(1, 10) {
		n = r.Range(8, 30)
	}
	op := r.Intn(6)
	rule := r.Intn(4)
	segs := make([]canvas.VerifSweepSeg, n)
	pos := 0
	for k := range segs {
		if k > 0 && r.P(1, 3) {
			// coincident with the one below
		} else {
			pos++
		}
		clip := r.Bool()
		if op == 0 {
			clip = false
		}
		sg := canvas.VerifSweepSeg{Clipping: clip, Increasing: r.Bool(), Pos: pos}
		if !clip && r.P(1, 8) {
			sg.Open = true
		}
		if r.P(1, 6) {
			sg.Vertical = true
		}
		if r.P(1, 8) {
			sg.OtherSelf = r.Range(-2, 2) // as left behind by an earlier merge
		}
		segs[k] = sg
	}
	// coincident segments share verticality
	for k := 1; k < n; k++ {
		if segs[k].Pos == segs[k-1].Pos {
			segs[k].Vertical = segs[k-1].Vertical
		}
	}
	mergeAt := -1
	if r.P(2, 3) {
		mergeAt = r.Intn(n)
	}
	comp, merged := canvas.VerifSweepColumn(segs, op, canvas.FillRule(rule), mergeAt)
	fmtOut := func(os []canvas.VerifSweepOut) string {
		xs := make([]string, len(os))
		for k, v := range os {
			xs[k] = fmt.Sprintf("(%s,%s,%s,%s,%s,%s)", cq.Z(int64(v.W)), cq.Z(int64(v.OW)), cq.Z(int64(v.Self)), cq.Z(int64(v.OSelf)), cq.Z(int64(v.In)), cq.Bool(v.Overlapped))
		}
		return cq.List(xs)
	}
	ss := make([]string, n)
	for k, sg := range segs {
		ss[k] = fmt.Sprintf("(mkS %s %s %s %s %s 0 0 %s %s 0 false)", cq.Bool(sg.Clipping), cq.Bool(sg.Open), cq.Bool(sg.Vertical), cq.Bool(sg.Increasing), cq.Z(int64(sg.Pos)), cq.Z(int64(sg.Self)), cq.Z(int64(sg.OtherSelf)))
	}
	term := fmt.Sprintf("mkCol %s %s %s %s %s %s", cq.Z(int64(op)), cq.Z(int64(rule)), cq.List(ss), cq.Z(int64(mergeAt)), fmtOut(comp), fmtOut(merged))
	o.Emit(out.Case{I: i, Fam: "col-" + opNames[op], Coq: term, Desc: map[string]interface{}{"op": opNames[op], "rule": rule, "segs": segs, "mergeAt": mergeAt, "go_computed": comp, "go_merged": merged}})
}

// seqCase: a status column with bundles of coincident segments (runs of 2..5), the real computeSweepFields on it and then
// the real mergeOverlapping on a SEQUENCE of segments in random order (every bundle member, some twice, some outsiders):
// the order in which the right endpoints of a bundle are processed is not the stacking order.
func seqCase(o *out.W, r *rng.R, i int) {
	op := r.Intn(6)
	rule := r.Intn(4)
	clean := r.P(3, 4) // the setting of the theorems: no vertical / open segments, otherSelf = 0
	var segs []canvas.VerifSweepSeg
	pos := 0
	groups := r.Range(1, 5)
	for g := 0; g < groups; g++ {
		pos++
		run := 1
		if r.P(2, 3) {
			run = r.Range(2, 5)
		}
		vert := !clean && r.P(1, 6)
		for k := 0; k < run; k++ {
			clip := r.Bool()
			if op == 0 {
				clip = false
			}
			sg := canvas.VerifSweepSeg{Clipping: clip, Increasing: r.Bool(), Pos: pos, Vertical: vert}
			if !clean && !clip && r.P(1, 10) {
				sg.Open = true
			}
			if !clean && r.P(1, 10) {
				sg.OtherSelf = r.Range(-2, 2)
			}
			segs = append(segs, sg)
		}
	}
	n := len(segs)
	var merges []int
	for k := 0; k < n; k++ {
		inBundle := (k > 0 && segs[k-1].Pos == segs[k].Pos) || (k+1 < n && segs[k+1].Pos == segs[k].Pos)
		if inBundle || r.P(1, 4) {
			merges = append(merges, k)
		}
	}
	for k := len(merges) - 1; k > 0; k-- { // shuffle
		j := r.Intn(k + 1)
		merges[k], merges[j] = merges[j], merges[k]
	}
	if len(merges) > 0 && r.P(1, 3) {
		merges = append(merges, merges[r.Intn(len(merges))]) // a repeated call
	}
	if r.P(1, 8) && len(merges) > 1 {
		merges = merges[:len(merges)-1] // not all members merged: tie only
	}
	final, prev := canvas.VerifSweepColumnSeq(segs, op, canvas.FillRule(rule), merges)
	xs := make([]string, len(final))
	for k, v := range final {
		xs[k] = fmt.Sprintf("(%s,%s,%s,%s,%s,%s)", cq.Z(int64(v.W)), cq.Z(int64(v.OW)), cq.Z(int64(v.Self)), cq.Z(int64(v.OSelf)), cq.Z(int64(v.In)), cq.Bool(v.Overlapped))
	}
	ss := make([]string, n)
	for k, sg := range segs {
		ss[k] = fmt.Sprintf("(mkS %s %s %s %s %s 0 0 %s %s 0 false)", cq.Bool(sg.Clipping), cq.Bool(sg.Open), cq.Bool(sg.Vertical), cq.Bool(sg.Increasing), cq.Z(int64(sg.Pos)), cq.Z(int64(sg.Self)), cq.Z(int64(sg.OtherSelf)))
	}
	ms := make([]string, len(merges))
	for k, m := range merges {
		ms[k] = cq.Z(int64(m))
	}
	ps := make([]string, len(prev))
	for k, m := range prev {
		ps[k] = cq.Z(int64(m))
	}
	term := fmt.Sprintf("mkSeq %s %s %s %s %s %s", cq.Z(int64(op)), cq.Z(int64(rule)), cq.List(ss), cq.List(ms), cq.List(xs), cq.List(ps))
	o.Emit(out.Case{I: i, Fam: "seq-" + opNames[op], Coq: term, Desc: map[string]interface{}{"op": opNames[op], "rule": rule, "segs": segs, "merges": merges, "go_final": final, "go_prev": prev}})
}

// nearMissVertex picks an integer point in the interior of a non-vertical edge of the polygon
func nearMissVertex(r *rng.R, ip gen.IPoly) (gen.IPt, bool) {
	for try := 0; try < 20; try++ {
		c := ip.Contours[r.Intn(len(ip.Contours))]
		if len(c) < 2 {
			continue
		}
		k := r.Intn(len(c))
		a, b := c[k], c[(k+1)%len(c)]
		dx, dy := b.X-a.X, b.Y-a.Y
		if dx == 0 {
			continue
		}
		g := gcd(abs(dx), abs(dy))
		if g < 2 {
			continue
		}
		t := r.Range(1, g-1)
		return gen.IPt{X: a.X + dx/g*t, Y: a.Y + dy/g*t}, true
	}
	return gen.IPt{}, false
}

func gcd(a, b int) int {
	for b != 0 {
		a, b = b, a%b
	}
	return a
}

func abs(a int) int {
	if a < 0 {
		return -a
	}
	return a
}

// toPaths cuts a path into elements of one to three subpaths each (a slice without spare capacity)
func toPaths(p *canvas.Path, r *rng.R) canvas.Paths {
	sub := p.Split()
	var ps canvas.Paths
	for k := 0; k < len(sub); {
		n := r.Range(1, 3)
		if k+n > len(sub) {
			n = len(sub) - k
		}
		e := &canvas.Path{}
		for _, sp := range sub[k : k+n] {
			e = e.Append(sp.Copy())
		}
		ps = append(ps, e)
		k += n
	}
	return copyPaths(ps)
}

func copyPaths(ps canvas.Paths) canvas.Paths {
	out := make(canvas.Paths, len(ps))
	for k, e := range ps {
		out[k] = e.Copy()
	}
	return out
}

// ulpTilt rebuilds a polygonal path with every third vertex (at random) moved by 1 or 2 ulps in x
func ulpTilt(p *canvas.Path, r *rng.R) *canvas.Path {
	segs, err := pd.Decode(p.Data())
	if err != nil {
		return p
	}
	q := &canvas.Path{}
	for _, s := range segs {
		x := s.X
		if r.P(1, 3) {
			dir := math.Inf(1)
			if r.Bool() {
				dir = math.Inf(-1)
			}
			for k := r.Range(1, 2); k > 0; k-- {
				x = math.Nextafter(x, dir)
			}
		}
		switch s.Cmd {
		case 'M':
			q.MoveTo(x, s.Y)
		case 'L':
			q.LineTo(x, s.Y)
		case 'Z':
			q.Close()
		default:
			return p
		}
	}
	return q
}

// jitter rebuilds a polygonal path with every vertex moved by k*2^-29, |k| <= 4, in x and y
func jitter(p *canvas.Path, r *rng.R) *canvas.Path {
	segs, err := pd.Decode(p.Data())
	if err != nil {
		return p
	}
	q := &canvas.Path{}
	for _, s := range segs {
		x := s.X + math.Ldexp(float64(r.Range(-4, 4)), -29)
		y := s.Y + math.Ldexp(float64(r.Range(-4, 4)), -29)
		switch s.Cmd {
		case 'M':
			q.MoveTo(x, y)
		case 'L':
			q.LineTo(x, y)
		case 'Z':
			q.Close()
		default:
			return p
		}
	}
	return q
}

// pair is one generated operand pair: the paths, the family name, and the sampling box in units of the grid scale
type corpusEntry struct {
	P, Q  string
	Box   []int
	Scale float64
	Fam   string
}

type pair struct {
	P, Q           *canvas.Path
	fam            string
	x0, y0, x1, y1 int
	scale          float64
}

func boCase(o *out.W, r *rng.R, i int, settle bool) {
	pr, ok := genPair(r, settle)
	if !ok {
		return
	}
	judgePair(o, r, i, settle, pr)
}

func genPair(r *rng.R, settle bool) (pair, bool) {
	ipP := gen.Poly(r)
	var ipQ gen.IPoly
	fam := ipP.Family
	dx, dy := 0, 0
	switch r.Intn(8) {
	case 7:
		// tiny: one or two triangles per operand on the grid 0..5 (dense coincidences: concurrent edges, vertices on edges)
		tri := func() []gen.IPt {
			for {
				a, b, c := gen.IPt{X: r.Range(0, 5), Y: r.Range(0, 5)}, gen.IPt{X: r.Range(0, 5), Y: r.Range(0, 5)}, gen.IPt{X: r.Range(0, 5), Y: r.Range(0, 5)}
				if (b.X-a.X)*(c.Y-a.Y)-(b.Y-a.Y)*(c.X-a.X) != 0 {
					return []gen.IPt{a, b, c}
				}
			}
		}
		mk := func() gen.IPoly {
			ip := gen.IPoly{Family: "tiny", Scale: 1}
			for k := r.Range(1, 2); k > 0; k-- {
				ip.Contours = append(ip.Contours, tri())
			}
			return ip
		}
		ipP, ipQ = mk(), mk()
		fam = "tiny/tiny"
	case 6:
		// chain: contours whose bounding boxes touch each other one after the other, only the last one reaches the other
		// operand: a hole (listed in random position, often first), its outer square, a tab overlapping the square; the
		// other operand is a rectangle that touches the tab only
		w := r.Range(8, 14)
		hole := gen.Rect(2, 2, w-2, w-2)
		if r.P(3, 4) {
			hole = gen.Reverse(hole)
		}
		outer := gen.Rect(0, 0, w, w)
		ty := r.Range(1, w-3)
		tab := gen.Rect(w-1, ty, w+r.Range(3, 6), ty+2)
		cs := [][]gen.IPt{hole, outer, tab}
		if r.P(1, 2) { // random order, else hole first
			for k := 2; k > 0; k-- {
				j := r.Intn(k + 1)
				cs[k], cs[j] = cs[j], cs[k]
			}
		}
		far := gen.Rect(w+2, ty-1, w+9, ty+3)
		chain := gen.IPoly{Family: "chain", Scale: 1, Contours: cs}
		other := gen.IPoly{Family: "far-rect", Scale: 1, Contours: [][]gen.IPt{far}}
		if r.P(1, 4) {
			other.Contours = append(other.Contours, gen.Rect(w+12, ty-6, w+15, ty+8))
		}
		if r.Bool() {
			ipP, ipQ = chain, other
		} else {
			ipP, ipQ = other, chain
		}
		fam = ipP.Family + "/" + ipQ.Family
	case 5:
		// concurrent edges: three to five triangles, each with one edge through a common point that is a vertex of none or
		// only some of them (doubled coordinates: the point may be a half-grid point of the original grid); the edges
		// include vertical and horizontal ones; the triangles are dealt to both operands
		cx, cy := r.Range(-4, 4), r.Range(-4, 4)
		dirs := [][2]int{{0, 1}, {1, 0}, {1, 1}, {1, -1}, {2, 1}, {1, 2}, {2, -1}, {1, -2}, {3, 1}, {1, 3}, {3, 2}, {2, 3}, {3, -1}, {2, -3}}
		for k := len(dirs) - 1; k > 0; k-- {
			j := r.Intn(k + 1)
			dirs[k], dirs[j] = dirs[j], dirs[k]
		}
		nt := r.Range(3, 5)
		if r.P(2, 3) { // mostly with a vertical edge through the point
			for k := range dirs {
				if dirs[k] == [2]int{0, 1} {
					j := r.Intn(nt)
					dirs[k], dirs[j] = dirs[j], dirs[k]
				}
			}
		}
		var pcs, qcs [][]gen.IPt
		for k := 0; k < nt; k++ {
			d := dirs[k]
			m, n := r.Range(1, 3), r.Range(1, 3)
			switch r.Intn(6) {
			case 0:
				m = 0 // this one starts at the point
			case 1, 2:
				n = 0 // this one ends at the point (a right end point when the direction points to the right)
			}
			a := gen.IPt{X: cx - m*d[0], Y: cy - m*d[1]}
			b := gen.IPt{X: cx + n*d[0], Y: cy + n*d[1]}
			c := gen.IPt{X: r.Range(-8, 8), Y: r.Range(-8, 8)}
			if (b.X-a.X)*(c.Y-a.Y)-(b.Y-a.Y)*(c.X-a.X) == 0 {
				c = gen.IPt{X: a.X - d[1]*2, Y: a.Y + d[0]*2}
			}
			tri := []gen.IPt{a, b, c}
			if r.Bool() {
				tri = gen.Reverse(tri)
			}
			if k == 0 || (k > 1 && r.Bool()) {
				pcs = append(pcs, tri)
			} else {
				qcs = append(qcs, tri)
			}
		}
		sc := rng.Pick(r, []float64{1, 0.5, 0.25, 2})
		ipP = gen.IPoly{Family: "concurrent", Scale: sc, Contours: pcs}
		ipQ = gen.IPoly{Family: "concurrent", Scale: sc, Contours: qcs}
		fam = "concurrent/concurrent"
	case 0:
		ipQ = ipP // identical operand
		fam += "/same"
	case 1:
		ipQ = ipP
		dx, dy = r.Range(-3, 3), r.Range(-3, 3) // shifted copy: many collinear overlaps
		fam += "/shifted"
	case 2:
		ipQ = gen.IPoly{Scale: ipP.Scale}
		for _, c := range ipP.Contours {
			ipQ.Contours = append(ipQ.Contours, gen.Reverse(c))
		}
		dx = r.Range(-2, 2)
		fam += "/reversed"
	default:
		ipQ = gen.Poly(r)
		ipQ.Scale = ipP.Scale
		fam += "/" + ipQ.Family
	}
	P := build(ipP, 0, 0)
	Q := build(ipQ, dx, dy)
	if r.P(1, 6) {
		// ulp tilt: some vertices moved by one or two units in the last place of x (vertical edges become needles that lean over by
		// 1e-16; intersections whose x rounds onto an end point)
		P, Q = ulpTilt(P, r), ulpTilt(Q, r)
		fam += "+ulp"
	} else if r.P(1, 5) {
		// leaning edges: every vertex moved by a few multiples of 2^-29 (1.9e-9), which turns vertical and coincident edges into
		// edges that lean over by less than the snap grid and shared vertices into clusters inside one tolerance square
		P, Q = jitter(P, r), jitter(Q, r)
		fam += "+jitter"
	}
	if r.P(1, 3) {
		// near miss: one more triangle in P with a vertex 2^-29 or 2^-28 (1.9e-9, 3.7e-9: inside the 1e-8 snap square) beside
		// an integer point of an edge of P, without being an exact intersection
		if v, ok := nearMissVertex(r, ipP); ok {
			sgn := float64(2*r.Intn(2) - 1)
			eps := sgn * math.Ldexp(1, -29-r.Intn(2)+1)
			sc := ipP.Scale
			x0, y0, x1, y1 := ipP.Bounds()
			P.MoveTo(float64(v.X)*sc, float64(v.Y)*sc+eps)
			switch r.Intn(3) {
			case 0: // both neighbours to the left: the vertex is a right end point only, its tolerance square has no starting segment
				P.LineTo(float64(r.Range(x0-2, v.X-1))*sc, float64(r.Range(y0-1, y1+1))*sc)
				P.LineTo(float64(r.Range(x0-2, v.X-1))*sc, float64(r.Range(y0-1, y1+1))*sc)
			case 1: // both to the right
				P.LineTo(float64(r.Range(v.X+1, x1+2))*sc, float64(r.Range(y0-1, y1+1))*sc)
				P.LineTo(float64(r.Range(v.X+1, x1+2))*sc, float64(r.Range(y0-1, y1+1))*sc)
			default:
				P.LineTo(float64(r.Range(x0-1, x1+1))*sc, float64(r.Range(y0-1, y1+1))*sc)
				P.LineTo(float64(r.Range(x0-1, x1+1))*sc, float64(r.Range(y0-1, y1+1))*sc)
			}
			P.Close()
			fam += "+nearmiss"
		}
	}
	if settle && r.P(1, 10) {
		// an open subpath (the last one is not closed): fills close it implicitly
		if d := P.Data(); len(d) > 4 && d[len(d)-1] == canvas.CloseCmd {
			q := &canvas.Path{}
			segs, err := pd.Decode(d)
			if err == nil {
				for k, sg := range segs {
					switch sg.Cmd {
					case 'M':
						q.MoveTo(sg.X, sg.Y)
					case 'L':
						q.LineTo(sg.X, sg.Y)
					case 'Z':
						if k < len(segs)-1 {
							q.Close()
						}
					}
				}
				P = q
				fam += "+open"
			}
		}
	}
	x0, y0, x1, y1 := ipP.Bounds()
	if !settle {
		a, b, c, d := ipQ.Bounds()
		x0, y0, x1, y1 = min(x0, a+dx), min(y0, b+dy), max(x1, c+dx), max(y1, d+dy)
	}
	return pair{P, Q, fam, x0, y0, x1, y1, ipP.Scale}, true
}

func judgePair(o *out.W, r *rng.R, i int, settle bool, pr pair) {
	P, Q, fam := pr.P, pr.Q, pr.fam
	pc, _, ok1 := decodeFlat(P)
	qc, _, ok2 := decodeFlat(Q)
	if !ok1 || !ok2 || len(pc) == 0 {
		return
	}
	// every third case goes through the Paths entry points, the operands cut into elements of one to three subpaths
	viaPaths := r.P(1, 3)
	var PP, QQ canvas.Paths
	if viaPaths {
		PP, QQ = toPaths(P, r), toPaths(Q, r)
		fam += "+Paths"
	}
	ops := []int{1, 2, 3, 4, 5}
	rules := []int{0}
	if settle {
		ops = []int{0}
		rules = []int{0, 1, 2, 3}
		qc = nil
	}
	for _, op := range ops {
		for _, rule := range rules {
			res := runOp(func() *canvas.Path {
				if viaPaths {
					pp, qq := copyPaths(PP), copyPaths(QQ)
					switch op {
					case 0:
						return pp.Settle(canvas.FillRule(rule))
					case 1:
						return pp.And(qq)
					case 2:
						return pp.Or(qq)
					case 3:
						return pp.Not(qq)
					case 4:
						return pp.Xor(qq)
					default:
						return pp.DivideBy(qq)
					}
				}
				p, q := P.Copy(), Q.Copy()
				switch op {
				case 0:
					return p.Settle(canvas.FillRule(rule))
				case 1:
					return p.And(q)
				case 2:
					return p.Or(q)
				case 3:
					return p.Not(q)
				case 4:
					return p.Xor(q)
				default:
					return p.DivideBy(q)
				}
			})
			desc := map[string]interface{}{"op": opNames[op], "rule": rule, "P": P.String(), "Q": Q.String()}
			if settle {
				delete(desc, "Q")
			}
			if res.panic != "" || res.hang {
				desc["panic"] = res.panic
				desc["hang"] = res.hang
				o.Emit(out.Case{I: i, Fam: fam, Coq: "", Desc: desc, Tags: []string{"panic"}})
				continue
			}
			rc, rfl, ok := decodeFlat(res.p)
			if !ok {
				desc["undecodable_result"] = res.p.String()
				o.Emit(out.Case{I: i, Fam: fam, Coq: "", Desc: desc, Tags: []string{"panic"}})
				continue
			}
			desc["R"] = res.p.String()
			// samples
			x0, y0, x1, y1 := pr.x0, pr.y0, pr.x1, pr.y1
			var samples []ipt
			u := units(pr.scale)
			for k := 0; k < 14; k++ {
				samples = append(samples, ipt{int64(2*r.Range(x0-1, x1)+1) * u / 2, int64(2*r.Range(y0-1, y1)+1) * u / 2})
			}
			delta := float64(int64(1) << 20)
			samples = append(samples, sideSamples(r, pc, 5, delta)...)
			samples = append(samples, sideSamples(r, qc, 5, delta)...)
			samples = append(samples, sideSamples(r, rc, 6, delta)...)
			ss := make([]string, len(samples))
			for k, s := range samples {
				ss[k] = cq.Pair(cq.Z(s.X), cq.Z(s.Y))
			}
			rx, t2, K := "nil", "0%Z", 0
			r2, r2x := "nil", "nil"
			if settle {
				// the crossing test on exact coordinates and idempotence are C02's subject
				res2 := runOp(func() *canvas.Path { return res.p.Copy().Settle(canvas.NonZero) })
				if res2.panic != "" || res2.hang {
					desc["panic"] = "second Settle: " + res2.panic
					desc["hang"] = res2.hang
					o.Emit(out.Case{I: i, Fam: fam, Coq: "", Desc: desc, Tags: []string{"panic"}})
					continue
				}
				rc2, rfl2, ok2 := decodeFlat(res2.p)
				if !ok2 {
					continue
				}
				desc["R2"] = res2.p.String()
				var ex []string
				rx, t2, K, ex = exactTerm(rfl, rfl2)
				r2, r2x = pathTerm(rc2), ex[0]
			}
			desc["exact_scale_bits"] = K
			desc["samples_units_2^-30"] = samples
			term := fmt.Sprintf("mkBo %s %s %s %s %s %s %s %s %s %s %s", cq.Z(int64(op)), cq.Z(int64(rule)), pathTerm(pc), pathTerm(qc), pathTerm(rc), rx, cq.Z(int64(1)<<36), t2, cq.List(ss), r2, r2x)
			o.Emit(out.Case{I: i, Fam: fam, Coq: term, Desc: desc, Tags: []string{strings.ToLower(opNames[op])}})
		}
	}
}

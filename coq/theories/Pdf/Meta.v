(** Document information written by pdfWriter.Close (writer.go 600-652) (C13): the Info dictionary holds
    Title/Subject/Keywords/Author/Creator (each only if non-empty), the catalog holds Lang (if non-empty).
    Every string goes through [encode] and is printed as a literal string by writeVal. *)
From Coq Require Import ZArith List Bool String.
From CV Require Import Pdf.Strings Pdf.Check.
Import ListNotations.
Open Scope string_scope.

Record meta := mkMeta { mTitle : list Z; mSubject : list Z; mKeywords : list Z; mAuthor : list Z; mCreator : list Z; mLang : list Z }.

(** writeVal (encode s) : the raw literal-string token *)
Definition sval (s : list Z) : pval := VStr (write_literal (encode_text s)).
Definition sval_v0 (s : list Z) : pval := VStr (write_literal_v0 (encode_text s)).

Definition opt (k : string) (s : list Z) : list (string * pval) :=
  match s with [] => [] | _ :: _ => [(k, sval s)] end.
Definition optv (s : list Z) : option pval :=
  match s with [] => None | _ :: _ => Some (sval s) end.

(** Info dictionary; Producer and CreationDate (inputs) are always present *)
Definition info_of (m : meta) (producer date : list Z) : list (string * pval) :=
  (opt "Title" (mTitle m) ++ opt "Subject" (mSubject m) ++ opt "Keywords" (mKeywords m) ++
   opt "Author" (mAuthor m) ++ opt "Creator" (mCreator m) ++
   [("Producer", sval producer); ("CreationDate", sval date)])%list.

(** catalog of the current tree: Lang = encode(w.lang) *)
Definition catalog_of (m : meta) : list (string * pval) :=
  ([("Type", VName "Catalog"); ("Pages", VRef 3 0)] ++
   match mLang m with [] => [] | _ :: _ => [("Lang", sval (mLang m))] end)%list.

(** catalog of the tree before the fix: Lang = encode(w.creator), guarded by w.lang != "" *)
Definition catalog_of_v0 (m : meta) : list (string * pval) :=
  ([("Type", VName "Catalog"); ("Pages", VRef 3 0)] ++
   match mLang m with [] => [] | _ :: _ => [("Lang", sval (mCreator m))] end)%list.

(** PROPERTY: the value, read by the specification reader and decoded as a text string, is the input;
    an empty input may be represented by an absent key *)
Definition field_value_ok (v : option pval) (inp : list Z) : bool :=
  match v with
  | None => match inp with [] => true | _ => false end
  | Some (VStr raw) =>
      match read_literal_token raw with
      | Some bytes => match decode_text bytes with Some cps => list_eqb cps inp | None => false end
      | None => false
      end
  | Some _ => false
  end.

Definition field_ok (d : list (string * pval)) (key : string) (inp : list Z) : bool :=
  field_value_ok (dget key d) inp.

(** TIE: the raw token is what the writer model prints *)
Definition field_tie (d : list (string * pval)) (key : string) (inp : list Z) : bool :=
  match dget key d with
  | None => match inp with [] => true | _ => false end
  | Some (VStr raw) => list_eqb raw (write_literal (encode_text inp))
  | Some _ => false
  end.

(** C04 — exact classification of sample points by their distance to a polyline (integers, no roots):
    used by the K2 oracle on the outputs of Stroke and Offset. *)
From Coq Require Import ZArith List Bool Lia.
From CV Require Import Geom.Winding Bool.Check.
Import ListNotations.
Open Scope Z_scope.

(** segments of an open polyline / closed contour *)
Fixpoint open_edges (c : list pt) : list (pt * pt) :=
  match c with
  | a :: ((b :: _) as rest) => (a, b) :: open_edges rest
  | _ => []
  end.
Definition path_edges (closed : bool) (c : list pt) : list (pt * pt) := if closed then edges c else open_edges c.

(** squared distance from p to the segment ab is < t2 *)
Definition near_seg (p a b : pt) (t2 : Z) : bool :=
  let '(px, py) := p in let '(ax, ay) := a in let '(bx, by_) := b in
  let dx := bx - ax in let dy_ := by_ - ay in
  let len2 := dx * dx + dy_ * dy_ in
  let dot := (px - ax) * dx + (py - ay) * dy_ in
  if dot <=? 0 then dist2 p a <? t2
  else if len2 <=? dot then dist2 p b <? t2
  else let cr := dx * (py - ay) - dy_ * (px - ax) in cr * cr <? t2 * len2.

(** p lies inside the slab of the segment with its foot at least sqrt(m2) away from both ends, at squared
    distance < t2 from the segment *)
Definition in_slab (p a b : pt) (t2 m2 : Z) : bool :=
  let '(px, py) := p in let '(ax, ay) := a in let '(bx, by_) := b in
  let dx := bx - ax in let dy_ := by_ - ay in
  let len2 := dx * dx + dy_ * dy_ in
  let dot := (px - ax) * dx + (py - ay) * dy_ in
  (0 <? dot) && (dot <? len2) &&
  (m2 * len2 <=? dot * dot) && (m2 * len2 <=? (len2 - dot) * (len2 - dot)) &&
  (let cr := dx * (py - ay) - dy_ * (px - ax) in cr * cr <? t2 * len2).

Definition near_path (p : pt) (es : list (pt * pt)) (t2 : Z) : bool := existsb (fun e => near_seg p (fst e) (snd e) t2) es.
Definition slab_path (p : pt) (es : list (pt * pt)) (t2 m2 : Z) : bool := existsb (fun e => in_slab p (fst e) (snd e) t2 m2) es.
Definition far_edges (p : pt) (es : list (pt * pt)) (t2 : Z) : bool := forallb (fun e => far_seg p (fst e) (snd e) t2) es.

(** near and far exclude each other (the band between the two thresholds is skipped by the judge) *)
Lemma near_far_seg p a b t2 : near_seg p a b t2 = true -> far_seg p a b t2 = false.
Proof.
  destruct p as [px py], a as [ax ay], b as [bx by_]. unfold near_seg, far_seg.
  destruct ((px - ax) * (bx - ax) + (py - ay) * (by_ - ay) <=? 0).
  - intros H. apply Z.ltb_lt in H. apply Z.leb_gt. exact H.
  - destruct ((bx - ax) * (bx - ax) + (by_ - ay) * (by_ - ay) <=? (px - ax) * (bx - ax) + (py - ay) * (by_ - ay)).
    + intros H. apply Z.ltb_lt in H. apply Z.leb_gt. exact H.
    + intros H. apply Z.ltb_lt in H. apply Z.leb_gt. exact H.
Qed.

(** inside a slab means near that segment *)
Lemma slab_near p a b t2 m2 : in_slab p a b t2 m2 = true -> near_seg p a b t2 = true.
Proof.
  destruct p as [px py], a as [ax ay], b as [bx by_]. unfold in_slab, near_seg.
  intros H. apply andb_true_iff in H as [H Hc]. apply andb_true_iff in H as [H _]. apply andb_true_iff in H as [H _].
  apply andb_true_iff in H as [H0 H1]. apply Z.ltb_lt in H0, H1.
  replace ((px - ax) * (bx - ax) + (py - ay) * (by_ - ay) <=? 0) with false by (symmetry; apply Z.leb_gt; lia).
  replace ((bx - ax) * (bx - ax) + (by_ - ay) * (by_ - ay) <=? (px - ax) * (bx - ax) + (py - ay) * (by_ - ay)) with false
    by (symmetry; apply Z.leb_gt; lia).
  exact Hc.
Qed.

(** the foot of p on the line ab: inside the slab the squared distance to EVERY point of the segment's
    supporting line is at least cr^2/len2, i.e. the slab test is the exact perpendicular distance test:
    for every point q = a + s*(b-a) (s rational, written s = sn/sd) of the line,
      |p - q|^2 * len2 >= cr^2   (Cauchy-Schwarz / Lagrange identity). *)
Lemma perpendicular_is_minimal px py ax ay bx by_ qx qy :
  (* q on the line through a and b *)
  (bx - ax) * (qy - ay) - (by_ - ay) * (qx - ax) = 0 ->
  let dx := bx - ax in let dy_ := by_ - ay in
  let cr := dx * (py - ay) - dy_ * (px - ax) in
  cr * cr <= ((px - qx) * (px - qx) + (py - qy) * (py - qy)) * (dx * dx + dy_ * dy_).
Proof.
  intros Hq dx dy_ cr.
  (* cr = dx*(py-qy) - dy*(px-qx) because q is on the line; then Lagrange's identity *)
  assert (E : cr = dx * (py - qy) - dy_ * (px - qx)) by (subst cr dx dy_; nia).
  rewrite E.
  assert (L : ((px - qx) * (px - qx) + (py - qy) * (py - qy)) * (dx * dx + dy_ * dy_)
              - (dx * (py - qy) - dy_ * (px - qx)) * (dx * (py - qy) - dy_ * (px - qx))
              = (dx * (px - qx) + dy_ * (py - qy)) * (dx * (px - qx) + dy_ * (py - qy))) by ring.
  assert (0 <= (dx * (px - qx) + dy_ * (py - qy)) * (dx * (px - qx) + dy_ * (py - qy))) by apply Z.square_nonneg.
  lia.
Qed.

(** ---------------------------------------------------------------------------------------------------------
    Meaning of the classification: [far_seg] really bounds the distance to EVERY point of the segment from below, [near_seg]
    really exhibits a point of the segment that close.  Points of the segment are a + (sn/sd)(b - a) with 0 <= sn <= sd;
    everything is scaled by sd (sd^2 for squared distances) to stay in Z. *)
(** the point a + (sn/sd)(b-a) of the segment, scaled by sd: squared distance to p, scaled by sd^2 *)
Definition sdist2 (p a b : pt) (sn sd : Z) : Z :=
  let '(px, py) := p in let '(ax, ay) := a in let '(bx, by_) := b in
  let ux := sd * (px - ax) - sn * (bx - ax) in let uy := sd * (py - ay) - sn * (by_ - ay) in ux * ux + uy * uy.

Theorem far_seg_sound p a b g2 sn sd : 0 < sd -> 0 <= sn <= sd ->
  far_seg p a b g2 = true -> g2 * (sd * sd) <= sdist2 p a b sn sd.
Proof.
  destruct p as [px py], a as [ax ay], b as [bx by_]. unfold far_seg, sdist2, dist2; cbn [fst snd].
  set (dx := bx - ax). set (dy := by_ - ay). set (u := px - ax). set (v := py - ay).
  intros Hsd Hsn.
  assert (Id : (sd * u - sn * dx) * (sd * u - sn * dx) + (sd * v - sn * dy) * (sd * v - sn * dy)
             = sd * sd * (u * u + v * v) - 2 * sd * sn * (u * dx + v * dy) + sn * sn * (dx * dx + dy * dy)) by ring.
  destruct (u * dx + v * dy <=? 0) eqn:E1.
  - intro H. apply Z.leb_le in H. apply Z.leb_le in E1. rewrite Id.
    assert (Hl2 : 0 <= dx * dx + dy * dy) by (pose proof (Z.square_nonneg dx); pose proof (Z.square_nonneg dy); lia).
    assert (0 <= sn * sn * (dx * dx + dy * dy)) by (apply Z.mul_nonneg_nonneg; [apply Z.square_nonneg | exact Hl2]).
    assert (0 <= sd * sn) by (apply Z.mul_nonneg_nonneg; lia).
    assert (sd * sn * (u * dx + v * dy) <= 0) by (apply Z.mul_nonneg_nonpos; lia).
    assert (0 <= sd * sd) by apply Z.square_nonneg.
    assert (g2 * (sd * sd) <= sd * sd * (u * u + v * v)) by (rewrite (Z.mul_comm g2); apply Z.mul_le_mono_nonneg_l; assumption).
    lia.
  - apply Z.leb_gt in E1.
    destruct (dx * dx + dy * dy <=? u * dx + v * dy) eqn:E2.
    + intro H. apply Z.leb_le in H. apply Z.leb_le in E2. rewrite Id.
      (* |p-b|^2 = |p-a|^2 - 2 dot + len2 *)
      assert (Hb : (px - bx) * (px - bx) + (py - by_) * (py - by_) = u * u + v * v - 2 * (u * dx + v * dy) + (dx * dx + dy * dy))
        by (subst dx dy u v; ring).
      rewrite Hb in H.
      set (dot := u * dx + v * dy) in *. set (len2 := dx * dx + dy * dy) in *. set (n2 := u * u + v * v) in *.
      (* sd^2 n2 - 2 sd sn dot + sn^2 len2 - sd^2 (n2 - 2 dot + len2) = 2 sd (sd - sn) dot - (sd^2 - sn^2) len2 = (sd - sn) (2 sd dot - (sd + sn) len2) >= 0 *)
      assert (K : sd * sd * n2 - 2 * sd * sn * dot + sn * sn * len2 - sd * sd * (n2 - 2 * dot + len2)
                  = (sd - sn) * (2 * sd * dot - (sd + sn) * len2)) by ring.
      assert (0 <= (sd - sn) * (2 * sd * dot - (sd + sn) * len2)).
      { apply Z.mul_nonneg_nonneg; [lia|].
        assert (Hl2 : 0 <= len2) by (subst len2; pose proof (Z.square_nonneg dx); pose proof (Z.square_nonneg dy); lia).
        assert (sd * len2 <= sd * dot) by (apply Z.mul_le_mono_nonneg_l; lia).
        assert (sn * len2 <= sd * len2) by (apply Z.mul_le_mono_nonneg_r; lia).
        lia. }
      assert (0 <= sd * sd) by apply Z.square_nonneg.
      assert (g2 * (sd * sd) <= sd * sd * (n2 - 2 * dot + len2)) by (rewrite (Z.mul_comm g2); apply Z.mul_le_mono_nonneg_l; assumption).
      lia.
    + intro H. apply Z.leb_le in H. apply Z.leb_gt in E2. rewrite Id.
      set (dot := u * dx + v * dy) in *. set (len2 := dx * dx + dy * dy) in *. set (n2 := u * u + v * v) in *.
      set (cr := dx * v - dy * u) in *.
      (* Lagrange: n2 * len2 = dot^2 + cr^2 *)
      assert (L : n2 * len2 = dot * dot + cr * cr) by (subst n2 len2 dot cr; ring).
      assert (Hl : 0 < len2) by lia.
      (* (sd^2 n2 - 2 sd sn dot + sn^2 len2) * len2 = sd^2 cr^2 + (sd dot - sn len2)^2 *)
      assert (M : (sd * sd * n2 - 2 * sd * sn * dot + sn * sn * len2) * len2 = sd * sd * (cr * cr) + (sd * dot - sn * len2) * (sd * dot - sn * len2)).
      { replace ((sd * sd * n2 - 2 * sd * sn * dot + sn * sn * len2) * len2)
          with (sd * sd * (n2 * len2) - 2 * sd * sn * dot * len2 + sn * sn * len2 * len2) by ring.
        rewrite L. ring. }
      assert (0 <= (sd * dot - sn * len2) * (sd * dot - sn * len2)) by apply Z.square_nonneg.
      assert (0 <= sd * sd) by apply Z.square_nonneg.
      assert (sd * sd * (g2 * len2) <= sd * sd * (cr * cr)) by (apply Z.mul_le_mono_nonneg_l; assumption).
      assert (G : g2 * (sd * sd) * len2 <= (sd * sd * n2 - 2 * sd * sn * dot + sn * sn * len2) * len2) by (rewrite M; lia).
      apply Z.mul_le_mono_pos_r in G; assumption.
Qed.

Theorem near_seg_sound p a b t2 : near_seg p a b t2 = true ->
  exists sn sd, 0 < sd /\ 0 <= sn <= sd /\ sdist2 p a b sn sd < t2 * (sd * sd).
Proof.
  destruct p as [px py], a as [ax ay], b as [bx by_]. unfold near_seg, sdist2, dist2; cbn [fst snd].
  set (dx := bx - ax). set (dy := by_ - ay). set (u := px - ax). set (v := py - ay).
  destruct (u * dx + v * dy <=? 0) eqn:E1.
  - intro H. apply Z.ltb_lt in H. exists 0, 1. split; [lia|]. split; [lia|].
    replace (1 * u - 0 * dx) with u by ring. replace (1 * v - 0 * dy) with v by ring. subst u v. lia.
  - apply Z.leb_gt in E1.
    destruct (dx * dx + dy * dy <=? u * dx + v * dy) eqn:E2.
    + intro H. apply Z.ltb_lt in H. exists 1, 1. split; [lia|]. split; [lia|].
      replace (1 * u - 1 * dx) with (px - bx) by (subst u dx; ring).
      replace (1 * v - 1 * dy) with (py - by_) by (subst v dy; ring). lia.
    + intro H. apply Z.ltb_lt in H. apply Z.leb_gt in E2.
      set (dot := u * dx + v * dy) in *. set (len2 := dx * dx + dy * dy) in *.
      exists dot, len2. split; [lia|]. split; [lia|].
      set (cr := dx * v - dy * u) in *.
      assert (I : (len2 * u - dot * dx) * (len2 * u - dot * dx) + (len2 * v - dot * dy) * (len2 * v - dot * dy) = len2 * (cr * cr))
        by (subst len2 dot cr; ring).
      rewrite I.
      assert (Hl : 0 < len2) by lia.
      replace (t2 * (len2 * len2)) with (len2 * (t2 * len2)) by ring.
      apply Z.mul_lt_mono_pos_l; assumption.
Qed.

(** ... and for whole polylines *)
Theorem far_edges_sound p es g2 : far_edges p es g2 = true ->
  forall e sn sd, In e es -> 0 < sd -> 0 <= sn <= sd -> g2 * (sd * sd) <= sdist2 p (fst e) (snd e) sn sd.
Proof.
  unfold far_edges. intros H e sn sd He Hsd Hsn. rewrite forallb_forall in H. apply far_seg_sound; auto.
Qed.
Theorem near_path_sound p es t2 : near_path p es t2 = true ->
  exists e sn sd, In e es /\ 0 < sd /\ 0 <= sn <= sd /\ sdist2 p (fst e) (snd e) sn sd < t2 * (sd * sd).
Proof.
  unfold near_path. intro H. apply existsb_exists in H as [e [He Hn]].
  destruct (near_seg_sound _ _ _ _ Hn) as [sn [sd [A [B C]]]]. exists e, sn, sd. auto.
Qed.

(** C17 — Line breaking returns a feasible, optimal Knuth–Plass solution.
    Property theorems only; each is closed by [exact] of a lemma proved elsewhere. *)
From Coq Require Import ZArith QArith List Bool.
From CV Require Import Base.Dy Text.KPSpec Text.KP Text.KPQ Text.KPProofs Text.KPModelProofs Text.KPWitness Text.KPTheorems.
Import ListNotations.

(** F. The textbook dynamic programme is sound, complete and optimal: for every paragraph, width, tuning
    parameters and admissibility predicate on ratios, [kp_opt] returns a complete feasible breaking of minimal
    total demerits whenever one exists, and [None] only if none exists (exact rationals). *)
Theorem C17_kp_opt_optimal : forall (P : params Q) (items : list (item Q)) (width : Q) (feas : xr Q -> bool),
  (forall d ch, kp_opt QO P items width feas = Some (d, ch) ->
     (exists f, chain_eval QO P items width feas ch = Some (f, d)) /\ complete items ch = true /\
     (forall ch' f' d', chain_eval QO P items width feas ch' = Some (f', d') -> complete items ch' = true -> (d <= d')%Q)) /\
  (kp_opt QO P items width feas = None ->
     forall ch' f' d', chain_eval QO P items width feas ch' = Some (f', d') -> complete items ch' = true -> False).
Proof. exact kp_opt_optimal_Q. Qed.
Print Assumptions C17_kp_opt_optimal.

(** F. The same for any number structure with a reflexive, transitive, total order and monotone addition. *)
Theorem C17_kp_opt_optimal_generic : forall (num : Type) (O : ops num) (P : params num),
  (forall a, nleb O a a = true) ->
  (forall a b c, nleb O a b = true -> nleb O b c = true -> nleb O a c = true) ->
  (forall a b, nleb O a b = false -> nleb O b a = true) ->
  (forall a b, nltb O a b = negb (nleb O b a)) ->
  (forall c a b, nleb O a b = true -> nleb O (nadd O c a) (nadd O c b) = true) ->
  forall (items : list (item num)) (width : num) (feas : xr num -> bool),
  (forall d ch, kp_opt O P items width feas = Some (d, ch) ->
     (exists f, chain_eval O P items width feas ch = Some (f, d)) /\ complete items ch = true /\
     (forall ch' f' d', chain_eval O P items width feas ch' = Some (f', d') -> complete items ch' = true -> nleb O d d' = true)) /\
  (kp_opt O P items width feas = None ->
     forall ch' f' d', chain_eval O P items width feas ch' = Some (f', d') -> complete items ch' = true -> False).
Proof. exact @kp_opt_sound_optimal. Qed.
Print Assumptions C17_kp_opt_optimal_generic.

(** F. What "a chain evaluates" means in the words of the property: legal breakpoints, strictly increasing
    (the chain is listed most recent first), every forced break up to its last break included. *)
Theorem C17_chain_legal : forall (num : Type) (O : ops num) (P : params num) (items : list (item num)) ch,
  chain_struct O P items ch = true -> Forall (fun b => legal O P items b = true) ch.
Proof. exact @chain_struct_legal. Qed.
Print Assumptions C17_chain_legal.

Theorem C17_chain_increasing : forall (num : Type) (O : ops num) (P : params num) (items : list (item num)) ch,
  chain_struct O P items ch = true -> forall b rest, ch = b :: rest -> Forall (fun a => (a < b)%nat) rest.
Proof. exact @chain_struct_sorted. Qed.
Print Assumptions C17_chain_increasing.

Theorem C17_chain_forced_included : forall (num : Type) (O : ops num) (P : params num) (items : list (item num)) ch,
  chain_struct O P items ch = true ->
  forall i b rest, ch = b :: rest -> (i <= b)%nat -> forced_at O P items i = true -> In i ch.
Proof. exact @chain_struct_forced. Qed.
Print Assumptions C17_chain_forced_included.

Theorem C17_feasible_chain_is_structural : forall (num : Type) (O : ops num) (P : params num) (items : list (item num)) width feas ch r,
  chain_eval O P items width feas ch = Some r -> chain_struct O P items ch = true.
Proof. exact @chain_eval_struct. Qed.
Print Assumptions C17_feasible_chain_is_structural.

(** F. Breakpoints returned by the faithful model of Linebreak (any number structure with reflexive equality test
    in which forced penalties lie below +Infinity; any looseness, fuel, restarts, overflow): legal, strictly
    increasing, no forced break skipped; on a paragraph that ends in a forced break the last one is the last item. *)
Theorem C17_model_breaks_legal : forall (num : Type) (O : ops num) (P : params num),
  (forall x, neqb O x x = true) ->
  (forall it, forced O P it = true -> nltb O (ip it) (pInf P) = true) ->
  forall (items : list (item num)) (width : num) looseness fuel bs ok,
  linebreak O P items width looseness fuel = Done bs ok ->
  forced_at O P items (length items - 1) = true ->
  exists ch, (map (@oPos num) bs = map Z.of_nat (rev ch)) /\
             (chain_struct O P items ch = true) /\ (hd_error ch = Some (length items - 1)%nat).
Proof. exact @model_breaks_legal. Qed.
Print Assumptions C17_model_breaks_legal.

Theorem C17_model_breaks_legal_Q : forall (P : params Q), (0 < pInf P)%Q ->
  forall (items : list (item Q)) (width : Q) looseness fuel bs ok,
  linebreak QO P items width looseness fuel = Done bs ok ->
  forced_at QO P items (length items - 1) = true ->
  chain_struct QO P items (rev (out_positions bs)) = true /\
  hd_error (rev (out_positions bs)) = Some (length items - 1)%nat.
Proof. exact model_breaks_legal_Q. Qed.
Print Assumptions C17_model_breaks_legal_Q.

(** F. The goto-START loop makes progress: a pass asks for a restart only with a strictly larger tolerance
    (a ratio that occurred, or +Inf), and never once the tolerance is +Inf. *)
Theorem C17_restart_raises_tolerance : forall (num : Type) (O : ops num) (P : params num) (items : list (item num)) (width : num)
  tol l b cur act inact ovf t ovf',
  pass O P items width tol l b cur act inact None ovf = PRestart t ovf' ->
  match tol, t with
  | Some a, Some x => nltb O a x = true
  | Some _, None => True
  | None, _ => False
  end.
Proof. exact restart_raises_tolerance_init. Qed.
Print Assumptions C17_restart_raises_tolerance.

(** P. Model versus optimum: whenever the model's breaking is feasible, kp_opt finds one that is at least as good.
    (Missing for the full claim: the converse under [Monotone]; see KPTheorems.v.) *)
Theorem C17_model_vs_opt_partial : forall (P : params Q), (0 < pInf P)%Q ->
  forall (items : list (item Q)) (width : Q) looseness fuel bs ok feas f d,
  linebreak QO P items width looseness fuel = Done bs ok ->
  forced_at QO P items (length items - 1) = true ->
  chain_eval QO P items width feas (rev (out_positions bs)) = Some (f, d) ->
  exists dopt ch, kp_opt QO P items width feas = Some (dopt, ch) /\ (dopt <= d)%Q.
Proof. exact model_vs_opt_partial. Qed.
Print Assumptions C17_model_vs_opt_partial.

(** R. REFUTED: "whenever some breaking keeps every line's ratio within [-1, Tolerance] the returned one does".
    On Box 50, Glue(10,5,3), Box 38, Penalty(w=10,p=50,flagged), Box 1, Glue(0,oo,0), Penalty(-oo) at width 100
    kp_opt finds the one-line breaking [6] (ratio 1/1005) while the faithful model returns [1; 6], whose first
    line is not feasible at the default tolerance, with ok = true. *)
Theorem C17_model_optimal_refuted :
  (exists d, kp_opt QO default_params witness_items 100 (feas_tol QO (Some 2)) = Some (d, [6%nat])) /\
  (exists bs, linebreak QO default_params witness_items 100 0 60 = Done bs true /\
              positions bs = [1%nat; 6%nat] /\
              chain_eval QO default_params witness_items 100 (feas_tol QO (Some 2)) (rev (positions bs)) = None).
Proof. exact witness_refutes. Qed.
Print Assumptions C17_model_optimal_refuted.
